(** Simulation, part 4 (both modes; in warn mode out-of-range leaves are reported and decoding goes on): the decoder follows the specification's reading on every structure type:
    sp_ty succeeds with only valid leaves ==> dec_ty emits exactly those items and charges every live region. *)
From Coq Require Import ZArith List String Bool Lia ZifyBool.
From TV Require Import Layout.Types Base.Bytes Model.Monad Model.Constraints Model.Ints Model.Decoder Model.Message
  Spec.Value Proofs.Closure Proofs.LowClosure Proofs.Incremental Proofs.Sim1 Proofs.Sim2 Proofs.Sim3.
Import ListNotations.
Open Scope list_scope.
Open Scope Z_scope.

(** ---- what chk gives *)
Lemma chk_some {A} bs (r : option (A * list Z)) v rest :
  chk bs r = Some (v, rest) -> r = Some (v, rest) /\ blen rest <= blen bs.
Proof.
  unfold chk. destruct r as [[v' r']|]; [|discriminate]. destruct (Nat.leb _ _) eqn:E; [|discriminate].
  intros [= -> ->]. split; [reflexivity|]. apply Nat.leb_le in E. unfold blen. lia.
Qed.

Lemma split_at_some n bs h r : split_at n bs = Some (h, r) -> bs = h ++ r /\ blen h = n /\ 0 <= n.
Proof.
  unfold split_at. destruct ((n <? 0) || (Z.of_nat (List.length bs) <? n)) eqn:E; [discriminate|].
  intros [= <- <-]. split; [symmetry; apply firstn_skipn|]. unfold blen. rewrite firstn_length. lia.
Qed.

Lemma sp_prim_some p pa bs v z r : sp_prim p pa bs = Some (v, z, r) ->
  exists h, bs = h ++ r /\ blen h = pwidth p /\ 0 <= pwidth p /\ z = from_bytes (psigned p) h /\ v = SPrim pa p z.
Proof.
  unfold sp_prim. destruct (split_at (pwidth p) bs) as [[h r']|] eqn:E; [|discriminate].
  intros [= <- <- <-]. destruct (split_at_some _ _ _ _ E) as (Hb & Hl & Hn). exists h. repeat split; assumption.
Qed.

(** ---- runs do not depend on what follows the bytes they consume *)
Lemma ok_run_ext A (m : M A) s items r ys P : incr m -> ok_run m s items r P -> ok_run m (ext s ys) items (r ++ ys) P.
Proof.
  intros Hi (tr & s' & a & c & E & Sh & I & R & V & W & Fr & Pa).
  destruct (Hi _ ys _ _ _ E) as [Hne _]. specialize (Hne ltac:(discriminate)).
  exists tr, (ext s' ys), a, c. split; [exact Hne|]. split; [exact Sh|].
  split; [unfold ext; cbn [inp]; rewrite I, app_assoc; reflexivity|].
  split; [unfold ext; cbn [inp]; rewrite R; reflexivity|].
  split; [exact V|]. split; [exact W|]. split; [exact Fr|exact Pa].
Qed.

(** the frame of a size-prefixed region: size field, fresh constraint announced and listed, payload, closing *)
Lemma frame_chain s s1 s2 s3 s4 s5 s6 cid :
  frame s s1 -> frame s1 s2 -> cid = List.length (store s1) ->
  (forall k, (k <= cid)%nat -> frame_from k s2 s3) -> (forall k, (k <= cid)%nat -> frame_from k s3 s4) ->
  frame s4 s5 -> (forall k, (k <= cid)%nat -> frame_from k s5 s6) -> frame s s6.
Proof.
  intros F1 F2 Hc F3 F4 F5 F6. unfold frame. set (n0 := List.length (store s)).
  assert (L1 : (n0 <= List.length (store s1))%nat) by (destruct F1 as [L _]; exact L).
  assert (Hk : (n0 <= cid)%nat) by lia.
  pose proof (frame_weaken n0 _ _ L1 F2) as F2'. pose proof (F3 n0 Hk) as F3'. pose proof (F4 n0 Hk) as F4'.
  assert (L4 : (n0 <= List.length (store s4))%nat).
  { destruct F2' as [La _]. destruct F3' as [Lb _]. destruct F4' as [Lc _]. lia. }
  pose proof (frame_weaken n0 _ _ L4 F5) as F5'. pose proof (F6 n0 Hk) as F6'.
  eapply frame_from_trans; [exact F1|]. eapply frame_from_trans; [exact F2'|]. eapply frame_from_trans; [exact F3'|].
  eapply frame_from_trans; [exact F4'|]. eapply frame_from_trans; [exact F5'|exact F6'].
Qed.

Lemma incr_dec_ty (T : tables) (abort : bool) t pa sel enc : incr (dec_ty T abort t pa sel enc).
Proof. apply (P_dec_ty T abort (@incr) (lclosed_closed _ incr_lclosed abort)). Qed.
Lemma incr_dec_array (abort : bool) lid pa count body : (forall p, incr (body p)) -> incr (dec_array lid pa count body).
Proof. apply (P_dec_array abort (@incr) (lclosed_closed _ incr_lclosed abort)). Qed.

(** ---- primitive *)
Definition val_ok (v : sv) (a : option value) : Prop :=
  match v with
  | SPrim _ p z => a = Some (VInt_ (pname p) z)
  | SNode _ _ _ => as_typed_int a = None
  end.

(** in strict mode every leaf must be in range; in warn mode any leaf goes *)
Fixpoint ok_leaves (abort : bool) (v : sv) : bool :=
  match v with
  | SPrim _ p z => negb abort || valid p z
  | SNode _ _ kids => forallb (ok_leaves abort) kids
  end.

Lemma sim_prim abort p pa bs v z rest s :
  sp_prim p pa bs = Some (v, z, rest) -> negb abort || valid p z = true -> wf_st s -> inp s = bs ->
  fits (view s) (blen bs - blen rest) ->
  ok_run (dec_prim abort p pa) s (items_of v) rest (fun a => a = Some (VInt_ (pname p) z)).
Proof.
  intros Hs V W I F. destruct (sp_prim_some _ _ _ _ _ _ Hs) as (h & -> & Hl & Hw & -> & ->).
  assert (Hn : blen (h ++ rest) - blen rest = pwidth p) by (unfold blen in *; rewrite app_length; lia).
  rewrite Hn in F.
  destruct (dec_prim_spec abort p pa h rest s W I ltac:(unfold blen in Hl; lia) Hw ltac:(intros ->; exact V) F) as (s' & E & I' & V' & W' & Fr).
  eexists _, s', (Some (VInt_ (pname p) (from_bytes (psigned p) h))), h.
  split; [exact E|]. split.
  - cbn [items_of]. rewrite <- (app_nil_r (vwarn _ _ _)).
    apply (sh_prim pa p (from_bytes (psigned p) h) h [] []); [unfold blen in Hl; lia|exact Hw|constructor].
  - split; [exact I|]. split; [exact I'|]. split; [rewrite Hl; exact V'|]. split; [exact W'|]. split; [exact Fr|reflexivity].
Qed.

(** ---- counted elements *)
Section Elems.
  Variable abort : bool.
  Variable f : path -> list Z -> option (sv * list Z).
  Variable body : path -> M (option value).
  Hypothesis Hbody : forall p b v r s, f p b = Some (v, r) -> ok_leaves abort v = true -> wf_st s -> inp s = b ->
                       blen r <= blen b -> fits (view s) (blen b - blen r) -> ok_run (body p) s (items_of v) r (fun _ => True).

  Lemma sp_elems_len pa n : forall i bs vs rest, sp_elems f pa n i bs = Some (vs, rest) -> blen rest <= blen bs.
  Proof.
    induction n as [|n IH]; intros i bs vs rest H; cbn [sp_elems] in H.
    - injection H as _ <-. lia.
    - destruct (chk bs (f (pindex pa i) bs)) as [[v r]|] eqn:C; [|discriminate].
      destruct (chk_some _ _ _ _ C) as [_ L1].
      destruct (sp_elems f pa n (i + 1) r) as [[vs' r']|] eqn:E; [|discriminate]. injection H as _ <-.
      specialize (IH _ _ _ _ E). lia.
  Qed.

  Definition step (pa : path) (st_ : Z * list (option value)) : M (Z * list (option value)) :=
    bind (body (pindex pa (fst st_))) (fun v => ret (fst st_ + 1, v :: snd st_)).

  Lemma elems_sim pa n : forall i acc bs vs rest s,
    sp_elems f pa n i bs = Some (vs, rest) -> forallb (ok_leaves abort) vs = true -> wf_st s -> inp s = bs ->
    fits (view s) (blen bs - blen rest) ->
    ok_run (iter n (step pa) (i, acc)) s (flat_map items_of vs) rest (fun _ => True).
  Proof.
    induction n as [|n IH]; intros i acc bs vs rest s H AV W I F; cbn [sp_elems iter] in *.
    - injection H as <- <-. apply ok_ret'; [exact W|exact I|exact Logic.I].
    - destruct (chk bs (f (pindex pa i) bs)) as [[v r]|] eqn:C; [|discriminate].
      destruct (chk_some _ _ _ _ C) as [Hf L1].
      destruct (sp_elems f pa n (i + 1) r) as [[vs' r']|] eqn:E; [|discriminate]. injection H as <- <-.
      pose proof (sp_elems_len _ _ _ _ _ _ E) as L2.
      cbn [forallb] in AV. apply andb_prop in AV as [AV1 AV2].
      destruct (fits_split (view s) (blen bs - blen r) (blen r - blen r') ltac:(lia) ltac:(lia)
                           ltac:(replace (blen bs - blen r + (blen r - blen r')) with (blen bs - blen r') by lia; exact F)) as [F1 F2].
      cbn [flat_map]. apply ok_bind with (mid := r) (P := fun a => fst a = i + 1).
      + unfold step. cbn [fst snd]. rewrite <- (app_nil_r (items_of v)). apply ok_bind with (mid := r) (P := fun _ => True).
        * apply (Hbody _ _ _ _ _ Hf AV1 W I L1 F1).
        * intros s1 a W1 I1 V1 _. apply ok_ret'; [exact W1|exact I1|reflexivity].
      + intros s1 [i' acc'] W1 I1 V1 Hi. cbn [fst] in Hi. subst i'. apply (IH _ _ _ _ _ _ E AV2 W1 I1).
        rewrite V1, I. exact F2.
  Qed.

  (** [process_array] against [sp_counted] *)
  Lemma array_sim lid pa count bs v rest s :
    sp_counted f lid pa count bs = Some (v, rest) -> ok_leaves abort v = true -> wf_st s -> inp s = bs ->
    fits (view s) (blen bs - blen rest) ->
    ok_run (dec_array lid pa count body) s (items_of v) rest (fun a => as_typed_int a = None).
  Proof.
    unfold sp_counted. intros H AV W I F.
    destruct (Z.of_nat (List.length bs) <? count); [discriminate|].
    destruct (sp_elems f pa (Z.to_nat count) 0 bs) as [[vs r]|] eqn:E; [|discriminate]. injection H as <- <-.
    cbn [ok_leaves] in AV. unfold dec_array.
    replace (items_of (SNode pa lid vs)) with ([INode pa lid] ++ (flat_map items_of vs ++ [])) by (cbn [items_of app]; rewrite app_nil_r; reflexivity).
    apply ok_bind with (mid := inp s) (P := fun _ => True); [apply ok_sev; exact W|]. intros s1 _ W1 I1 V1 _.
    apply ok_bind with (mid := r) (P := fun _ => True).
    - destruct (Z_le_gt_dec 0 count) as [Hc|Hc].
      + eapply ok_meq; [apply repZ_iter; exact Hc|].
        apply (elems_sim pa (Z.to_nat count) 0 [] bs vs r s1 E AV W1 ltac:(congruence)).
        rewrite V1, I. replace (blen bs - blen bs) with 0 by lia. rewrite bump_0. exact F.
      + (* negative count: no iteration *)
        destruct count as [|q|q]; try lia. cbn [Z.to_nat sp_elems] in E. injection E as <- <-.
        cbn [repZ flat_map]. apply ok_ret'; [exact W1|congruence|exact Logic.I].
    - intros s2 r2 W2 I2 V2 _. apply ok_ret'; [exact W2|exact I2|reflexivity].
  Qed.

  Hypothesis Hincr : forall p, incr (body p).

  Lemma ids_bump n v : ids_of (bump n v) = ids_of v.
  Proof. unfold ids_of, bump. rewrite map_map. apply map_ext. intros [[i m] a]. reflexivity. Qed.

  Lemma fresh_not_in_view s : wf_st s -> ~ In (List.length (store s)) (ids_of (view s)).
  Proof.
    intros [_ AL] H. apply view_ids_in in H. rewrite Forall_forall in AL. specialize (AL _ H). lia.
  Qed.

  (** [process_tpm2b] with a list buffer against [sp_tpm2b_list] *)
  Lemma tpm2b_list_sim name szf buf szp lid pa bs v rest s :
    sp_tpm2b_list name szf buf szp lid f pa bs = Some (v, rest) -> ok_leaves abort v = true -> wf_st s -> inp s = bs ->
    fits (view s) (blen bs - blen rest) ->
    ok_run (dec_tpm2b_list abort name szf buf szp lid body pa) s (items_of v) rest (fun a => as_typed_int a = None).
  Proof.
    unfold sp_tpm2b_list. intros H AV W I F.
    destruct (sp_prim szp (pchild pa szf) bs) as [[[szv n] r1]|] eqn:Ep; [|discriminate].
    destruct (split_at n r1) as [[region rest']|] eqn:Es; [|discriminate].
    destruct (sp_counted f lid (pchild pa buf) n region) as [[lv [|x xs]]|] eqn:Ec; try discriminate.
    injection H as <- <-.
    destruct (sp_prim_some _ _ _ _ _ _ Ep) as (h & Hbs & Hl & Hw & Hz & Hszv).
    destruct (split_at_some _ _ _ _ Es) as (Hr1 & Hrl & Hn0).
    cbn [ok_leaves forallb] in AV. apply andb_prop in AV as [AVs AVl]. apply andb_prop in AVl as [AVl _].
    assert (Vs : negb abort || valid szp n = true) by (subst szv; exact AVs).
    assert (HN : blen bs - blen rest' = pwidth szp + n).
    { rewrite Hbs, Hr1. unfold blen in *. rewrite !app_length. lia. }
    rewrite HN in F. destruct (fits_split _ _ _ Hw Hn0 F) as [F1 F2].
    (* 1. the size field *)
    assert (P1 : ok_run (dec_prim abort szp (pchild pa szf)) s (items_of szv) r1 (fun a => a = Some (VInt_ (pname szp) n))).
    { apply (sim_prim abort szp (pchild pa szf) bs szv n r1 s Ep Vs W I).
      replace (blen bs - blen r1) with (pwidth szp) by (rewrite Hbs; unfold blen in *; rewrite app_length; lia). exact F1. }
    destruct P1 as (tr1 & s1 & a1 & c1 & E1 & Sh1 & Ic1 & I1 & V1 & W1 & Fr1 & ->).
    assert (Lc1 : blen c1 = pwidth szp).
    { rewrite I, Hbs in Ic1. apply (f_equal (@List.length Z)) in Ic1. rewrite !app_length in Ic1. unfold blen in *. lia. }
    rewrite Lc1 in V1.
    (* 2. the constraint object, announced and listed *)
    destruct (new_sc_spec s1 W1) as (s2 & E2 & I2 & L2 & V2 & W2 & Len2 & G2 & Fr2).
    set (cid := List.length (store s1)) in *.
    assert (Fresh : ~ In cid (ids_of (view s2))) by (rewrite V2; apply fresh_not_in_view, W1).
    destruct (set_constraint_spec abort cid (pchild pa szf) n s2 W2 Hn0 ltac:(lia)) as (s3 & E3 & I3 & L3 & V3 & W3 & Len3 & G3 & G3' & Fr3).
    { rewrite V2, V1. apply Forall_forall. intros e He. right. unfold fits in F2. rewrite Forall_forall in F2. apply F2, He. }
    rewrite (map_set_entry_fresh cid n _ Fresh) in V3.
    assert (NotListed : ~ In cid (lst s3)).
    { rewrite L3, L2. intros Hx. destruct W1 as [_ AL]. rewrite Forall_forall in AL. specialize (AL _ Hx). unfold cid in AL. lia. }
    destruct (append_lst_spec cid s3 W3 NotListed ltac:(lia)) as (s4 & E4 & I4 & St4 & V4 & W4 & Fr4).
    { rewrite G3, G2. reflexivity. }
    assert (Ent : entry_of s3 cid = (cid, Some n, 0)) by (unfold entry_of; rewrite G3, G2; reflexivity).
    rewrite Ent, V3, V2, V1 in V4.
    (* 3. the elements, read from the region, the rest of the input untouched *)
    set (s4r := mkSt region (store s4) (lst s4)).
    assert (Parr : ok_run (dec_array lid (pchild pa buf) n body) s4r (items_of lv) [] (fun a => as_typed_int a = None)).
    { apply (array_sim lid (pchild pa buf) n region lv [] s4r Ec AVl); [exact W4|reflexivity|].
      change (view s4r) with (view s4). rewrite V4. replace (blen region - blen []) with n by (unfold blen in *; cbn; lia).
      apply Forall_app. split; [exact F2|]. constructor; [cbn; lia|constructor]. }
    apply (ok_run_ext _ _ _ _ _ rest' _ (incr_dec_array abort lid (pchild pa buf) n body Hincr)) in Parr.
    cbn [app] in Parr.
    assert (Es4 : ext s4r rest' = s4).
    { unfold ext, s4r. cbn [inp store lst]. destruct s4 as [i4 st4 l4]. cbn [inp store lst] in *. f_equal. congruence. }
    rewrite Es4 in Parr.
    destruct Parr as (tr5 & s5 & a5 & c5 & E5 & Sh5 & Ic5 & I5 & V5 & W5 & Fr5 & Pa5).
    assert (Lc5 : blen c5 = n).
    { assert (inp s4 = region ++ rest') by congruence. rewrite H in Ic5. apply (f_equal (@List.length Z)) in Ic5.
      rewrite !app_length in Ic5. unfold blen in *. lia. }
    rewrite Lc5, V4, bump_app, bump_bump in V5. cbn [bump map bump_entry] in V5. rewrite Z.add_0_l in V5.
    (* 4. the region is exactly filled *)
    destruct (assert_done_spec abort cid n (bump (pwidth szp + n) (view s)) s5 W5 V5) as (s6 & E6 & I6 & L6 & V6 & W6 & _ & Fr6 & _).
    { rewrite ids_bump. intros Hx. apply Fresh. rewrite V2, V1, ids_bump. exact Hx. }
    (* assemble *)
    exists (sev pa (TyN name) :: tr1 ++ tr5), s6, (Some (VStruct_ (TyN name) [(szf, Some (VInt_ (pname szp) n)); (buf, a5)])), (c1 ++ c5).
    split.
    - unfold dec_tpm2b_list. unfold bind at 1. cbn [emit]. unfold bind at 1. rewrite E1. cbn [as_int].
      unfold bind at 1. rewrite E2. unfold bind at 1. fold cid. rewrite E3. unfold bind at 1. rewrite E4.
      unfold bind at 1. rewrite E5. unfold bind at 1. rewrite E6. cbn [ret app]. rewrite !app_nil_r. reflexivity.
    - split.
      + cbn [items_of flat_map]. rewrite app_nil_r. apply (sh_node pa (TyN name)). apply shape_app; assumption.
      + split; [rewrite Ic1, <- I1; cbn; rewrite <- app_assoc; f_equal; congruence|].
        split; [congruence|]. split; [|split; [exact W6|split; [exact (frame_chain _ _ _ _ _ _ _ cid Fr1 Fr2 eq_refl Fr3 Fr4 Fr5 Fr6)|reflexivity]]].
        rewrite V6. f_equal. unfold blen in *. rewrite app_length. lia.
  Qed.
End Elems.

(** ---- the whole structure-type decoder *)
Section Main.
  Variable T : tables.
  Variable abort : bool.

  (** unfolding equations (the mutual fixpoints are kept folded) *)
  Lemma sp_ty_prim p pa sel enc bs :
    sp_ty T (TPrim p) pa sel enc bs = match sp_prim p pa bs with Some (v, _, r) => Some (v, r) | None => None end.
  Proof. reflexivity. Qed.
  Lemma sp_ty_struct name isparams fs pa sel enc bs :
    sp_ty T (TStruct name isparams fs) pa sel enc bs =
    if enc && isparams && first_is_tpm2b fs then
      match fs with
      | FPlain n _ r =>
          match sp_enc_param T (pchild pa n) bs with
          | Some (v, r1) =>
              match sp_fields T r pa [(n, None)] r1 with
              | Some (kids, r2) => Some (SNode pa (TyEnc name) (v :: kids), r2)
              | None => None
              end
          | None => None
          end
      | _ => None
      end
    else
      match sp_fields T fs pa [] bs with
      | Some (kids, r) => Some (SNode pa (TyN name) kids, r)
      | None => None
      end.
  Proof. reflexivity. Qed.
  Lemma sp_ty_tpm2b_list name szf buf szp elem pa sel enc bs :
    sp_ty T (TTpm2bList name szf buf szp elem) pa sel enc bs =
    sp_tpm2b_list name szf buf szp (list_id elem) (fun p b => sp_ty T elem p None false b) pa bs.
  Proof. reflexivity. Qed.
  Lemma sp_ty_tpm2b_struct name szf buf szp inner pa sel enc bs :
    sp_ty T (TTpm2bStruct name szf buf szp inner) pa sel enc bs =
    match sp_prim szp (pchild pa szf) bs with
    | Some (szv, n, r1) =>
        if n =? 0 then Some (SNode pa (TyN name) [szv; SNode (pchild pa buf) (ty_id inner) []], r1)
        else
        match split_at n r1 with
        | Some (region, rest) =>
            match sp_ty T inner (pchild pa buf) None false region with
            | Some (iv, []) => Some (SNode pa (TyN name) [szv; iv], rest)
            | _ => None
            end
        | None => None
        end
    | None => None
    end.
  Proof. reflexivity. Qed.
  Lemma sp_ty_union name ar pa sel enc bs :
    sp_ty T (TUnion name ar) pa sel enc bs =
    match select_arm ar sel with
    | Some (n, _) =>
        match sp_arms T ar pa n bs with
        | Some (kids, r) => Some (SNode pa (TyN name) kids, r)
        | None => None
        end
    | None => None
    end.
  Proof. reflexivity. Qed.

  Lemma dec_ty_struct name isparams fs pa sel enc :
    dec_ty T abort (TStruct name isparams fs) pa sel enc =
    (let use_enc := enc && isparams && first_is_tpm2b fs in
     let tid := if use_enc then TyEnc name else TyN name in
     bind (emit (sev pa tid)) (fun _ =>
     bind (if use_enc
           then match fs with
                | FPlain n _ r => bind (dec_enc_param T abort (pchild pa n)) (fun v => dec_fields T abort r pa [(n, v)])
                | _ => dec_fields T abort fs pa []
                end
           else dec_fields T abort fs pa []) (fun vals =>
     ret (Some (VStruct_ tid (rev vals)))))).
  Proof. reflexivity. Qed.
  Lemma dec_ty_tpm2b_list name szf buf szp elem pa sel enc :
    dec_ty T abort (TTpm2bList name szf buf szp elem) pa sel enc =
    dec_tpm2b_list abort name szf buf szp (list_id elem) (fun p => dec_ty T abort elem p None false) pa.
  Proof. reflexivity. Qed.
  Lemma dec_ty_tpm2b_struct name szf buf szp inner pa sel enc :
    dec_ty T abort (TTpm2bStruct name szf buf szp inner) pa sel enc =
    bind (emit (sev pa (TyN name))) (fun _ =>
    let size_path := pchild pa szf in
    bind (dec_prim abort szp size_path) (fun szv =>
    let size := match as_int szv with Some z => z | None => 0 end in
    bind new_sc (fun cid =>
    bind (set_constraint abort cid size_path size) (fun _ =>
    bind (append_lst cid) (fun _ =>
    if size =? 0 then
      bind (emit (sev (pchild pa buf) (ty_id inner))) (fun _ =>
      bind (assert_done abort cid) (fun _ =>
      ret (Some (VStruct_ (TyN name) [(szf, szv); (buf, None)]))))
    else
      catch_exceeded abort [cid]
        (bind (dec_ty T abort inner (pchild pa buf) None false) (fun bv =>
         bind (assert_done abort cid) (fun _ =>
         ret (Some (VStruct_ (TyN name) [(szf, szv); (buf, bv)])))))
        (ret None)))))).
  Proof. reflexivity. Qed.
  Lemma dec_ty_union name ar pa sel enc :
    dec_ty T abort (TUnion name ar) pa sel enc =
    bind (emit (sev pa (TyN name))) (fun _ =>
    match select_arm ar sel with
    | Some (n, _) => dec_arms T abort ar name pa n
    | None => match sel with Some (tn, z) => fail (EValue pa tn z VSSelection) | None => internal_ IUnionAtRoot end
    end).
  Proof. reflexivity. Qed.

  (** field values seen so far: specification side vs decoder side *)
  Definition rel1 (a : string * option (string * Z)) (b : string * option value) : Prop :=
    fst a = fst b /\ match snd a with Some (tn, z) => snd b = Some (VInt_ tn z) | None => as_typed_int (snd b) = None end.
  Definition R (rs : list (string * option (string * Z))) (rd : list (string * option value)) : Prop := Forall2 rel1 rs rd.

  Lemma R_lookup rs rd n tz : R rs rd -> lookupS n rs = Some (Some tz) ->
    exists v, lookupS n rd = Some v /\ as_typed_int v = Some tz.
  Proof.
    induction 1 as [|[n1 v1] [n2 v2] rs rd [Hn Hv] HR IH]; cbn [lookupS]; [discriminate|].
    cbn [fst snd] in Hn, Hv. subst n2. destruct (String.eqb n n1); [|exact IH].
    intros [= ->]. destruct tz as [tn z]. exists v2. split; [reflexivity|]. rewrite Hv. reflexivity.
  Qed.

  Lemma R_lookup_none rs rd n : R rs rd -> lookupS n rs = Some None -> exists v, lookupS n rd = Some v /\ as_typed_int v = None.
  Proof.
    induction 1 as [|[n1 v1] [n2 v2] rs rd [Hn Hv] HR IH]; cbn [lookupS]; [discriminate|].
    cbn [fst snd] in Hn, Hv. subst n2. destruct (String.eqb n n1); [|exact IH].
    intros [= ->]. exists v2. split; [reflexivity|exact Hv].
  Qed.

  Definition Sim_ty (t : ty) : Prop := forall pa sel enc bs v rest s,
    sp_ty T t pa sel enc bs = Some (v, rest) -> ok_leaves abort v = true -> wf_st s -> inp s = bs ->
    blen rest <= blen bs -> fits (view s) (blen bs - blen rest) ->
    ok_run (dec_ty T abort t pa sel enc) s (items_of v) rest (val_ok v).

  Definition Sim_fields_at (fs : fields) : Prop := forall pa rs rd bs kids rest s,
    sp_fields T fs pa rs bs = Some (kids, rest) -> forallb (ok_leaves abort) kids = true -> R rs rd -> wf_st s -> inp s = bs ->
    fits (view s) (blen bs - blen rest) ->
    ok_run (dec_fields T abort fs pa rd) s (flat_map items_of kids) rest (fun vals => R (rev (map kid_info kids) ++ rs) vals).
  Definition Sim_fields (fs : fields) : Prop :=
    Sim_fields_at fs /\ match fs with FPlain _ _ r => Sim_fields_at r | _ => True end.

  Definition Sim_arms (ar : arms) : Prop := forall uname pa target bs kids rest s,
    sp_arms T ar pa target bs = Some (kids, rest) -> forallb (ok_leaves abort) kids = true -> wf_st s -> inp s = bs ->
    fits (view s) (blen bs - blen rest) ->
    ok_run (dec_arms T abort ar uname pa target) s (flat_map items_of kids) rest (fun a => as_typed_int a = None).
  Definition Sim_armp (p : armp) : Prop :=
    match p with PNone => True | PTy t => Sim_ty t | PList elem _ => Sim_ty elem end.

  Lemma sp_fields_len fs : forall pa rs bs kids rest, sp_fields T fs pa rs bs = Some (kids, rest) -> blen rest <= blen bs.
  Proof.
    induction fs as [|n t r IH|n e r IH|n sl u r IH]; intros pa rs bs kids rest H; cbn [sp_fields] in H.
    - injection H as _ <-. lia.
    - destruct (chk bs _) as [[v r1]|] eqn:C; [|discriminate]. destruct (chk_some _ _ _ _ C) as [_ L1].
      destruct (sp_fields T r pa _ r1) as [[vs r2]|] eqn:E; [|discriminate]. injection H as _ <-. specialize (IH _ _ _ _ _ E). lia.
    - destruct rs as [|[cn [[tn c]|]] rs']; try discriminate.
      destruct (chk bs _) as [[v r1]|] eqn:C; [|discriminate]. destruct (chk_some _ _ _ _ C) as [_ L1].
      destruct (sp_fields T r pa _ r1) as [[vs r2]|] eqn:E; [|discriminate]. injection H as _ <-. specialize (IH _ _ _ _ _ E). lia.
    - destruct (lookupS sl rs) as [[tz|]|]; try discriminate.
      destruct (chk bs _) as [[v r1]|] eqn:C; [|discriminate]. destruct (chk_some _ _ _ _ C) as [_ L1].
      destruct (sp_fields T r pa _ r1) as [[vs r2]|] eqn:E; [|discriminate]. injection H as _ <-. specialize (IH _ _ _ _ _ E). lia.
  Qed.

  Lemma sp_arms_len ar : forall pa target bs kids rest, sp_arms T ar pa target bs = Some (kids, rest) -> blen rest <= blen bs.
  Proof.
    induction ar as [|n key p r IH]; intros pa target bs kids rest H; cbn [sp_arms] in H; [discriminate|].
    destruct (String.eqb n target); [|eapply IH; exact H].
    destruct p as [|t|elem [cnt|]]; try discriminate.
    - injection H as _ <-. lia.
    - destruct (chk bs _) as [[v r1]|] eqn:C; [|discriminate]. destruct (chk_some _ _ _ _ C) as [_ L1]. injection H as _ <-. exact L1.
    - destruct (chk bs _) as [[v r1]|] eqn:C; [|discriminate]. destruct (chk_some _ _ _ _ C) as [_ L1]. injection H as _ <-. exact L1.
  Qed.


  Lemma sp_fields_plain n t r pa rs bs :
    sp_fields T (FPlain n t r) pa rs bs =
    match chk bs (sp_ty T t (pchild pa n) None false bs) with
    | Some (v, r1) =>
        let pv := match v with SPrim _ p z => Some (pname p, z) | _ => None end in
        match sp_fields T r pa ((n, pv) :: rs) r1 with
        | Some (vs, r2) => Some (v :: vs, r2)
        | None => None
        end
    | None => None
    end.
  Proof. reflexivity. Qed.
  Lemma sp_fields_list n elem r pa rs bs :
    sp_fields T (FList n elem r) pa rs bs =
    match rs with
    | (_, Some (_, count)) :: _ =>
        match chk bs (sp_counted (fun p b => sp_ty T elem p None false b) (list_id elem) (pchild pa n) count bs) with
        | Some (v, r1) =>
            match sp_fields T r pa ((n, None) :: rs) r1 with
            | Some (vs, r2) => Some (v :: vs, r2)
            | None => None
            end
        | None => None
        end
    | _ => None
    end.
  Proof. reflexivity. Qed.
  Lemma sp_fields_union n seln u r pa rs bs :
    sp_fields T (FUnion n seln u r) pa rs bs =
    match lookupS seln rs with
    | Some (Some tz) =>
        match chk bs (sp_ty T u (pchild pa n) (Some tz) false bs) with
        | Some (v, r1) =>
            let pv := match v with SPrim _ p z => Some (pname p, z) | _ => None end in
            match sp_fields T r pa ((n, pv) :: rs) r1 with
            | Some (vs, r2) => Some (v :: vs, r2)
            | None => None
            end
        | None => None
        end
    | _ => None
    end.
  Proof. reflexivity. Qed.
  Lemma dec_fields_plain n t r pa rd :
    dec_fields T abort (FPlain n t r) pa rd =
    bind (dec_ty T abort t (pchild pa n) None false) (fun v => dec_fields T abort r pa ((n, v) :: rd)).
  Proof. reflexivity. Qed.
  Lemma dec_fields_list n elem r pa rd :
    dec_fields T abort (FList n elem r) pa rd =
    match last_nonlist rd with
    | Some cv =>
        match as_int cv with
        | Some count =>
            bind (dec_array (list_id elem) (pchild pa n) count (fun p => dec_ty T abort elem p None false))
                 (fun v => dec_fields T abort r pa ((n, v) :: rd))
        | None => internal_ INoCount
        end
    | None => internal_ INoCount
    end.
  Proof. reflexivity. Qed.
  Lemma dec_fields_union n seln u r pa rd :
    dec_fields T abort (FUnion n seln u r) pa rd =
    match lookupS seln rd with
    | Some sv_ =>
        match as_typed_int sv_ with
        | Some tz => bind (dec_ty T abort u (pchild pa n) (Some tz) false) (fun v => dec_fields T abort r pa ((n, v) :: rd))
        | None => internal_ INoSelector
        end
    | None => internal_ INoSelector
    end.
  Proof. reflexivity. Qed.
  Lemma sp_arms_cons n key p r pa target bs :
    sp_arms T (ACons n key p r) pa target bs =
    if String.eqb n target then
      match p with
      | PNone => Some ([], bs)
      | PTy t => match chk bs (sp_ty T t (pchild pa n) None false bs) with Some (v, r1) => Some ([v], r1) | None => None end
      | PList elem (Some cnt) =>
          match chk bs (sp_counted (fun p b => sp_ty T elem p None false b) (list_id elem) (pchild pa n) cnt bs) with
          | Some (v, r1) => Some ([v], r1)
          | None => None
          end
      | PList _ None => None
      end
    else sp_arms T r pa target bs.
  Proof. reflexivity. Qed.
  Lemma dec_arms_cons n key p r uname pa target :
    dec_arms T abort (ACons n key p r) uname pa target =
    if String.eqb n target then
      match p with
      | PNone => ret (Some (VStruct_ (TyN uname) []))
      | PTy t => bind (dec_ty T abort t (pchild pa n) None false) (fun v => ret (Some (VStruct_ (TyN uname) [(n, v)])))
      | PList elem (Some cnt) =>
          bind (dec_array (list_id elem) (pchild pa n) cnt (fun p => dec_ty T abort elem p None false))
               (fun v => ret (Some (VStruct_ (TyN uname) [(n, v)])))
      | PList _ None => internal_ INoListSize
      end
    else dec_arms T abort r uname pa target.
  Proof. reflexivity. Qed.

  Lemma R_head_count cn tn c rs rd : R ((cn, Some (tn, c)) :: rs) rd -> exists cv, last_nonlist rd = Some cv /\ as_int cv = Some c.
  Proof.
    intros H. inversion H as [|a [n2 v2] ? rd' [Hn Hv] HR]; subst. cbn [fst snd] in *. subst v2.
    exists (Some (VInt_ tn c)). split; reflexivity.
  Qed.

  Lemma incr_dec_prim p pa : incr (dec_prim abort p pa).
  Proof. apply (L_dec_prim (@incr) incr_lclosed). Qed.

  Lemma sp_tpm2b_list_len name szf buf szp lid f pa bs v rest :
    sp_tpm2b_list name szf buf szp lid f pa bs = Some (v, rest) -> blen rest <= blen bs.
  Proof.
    unfold sp_tpm2b_list. destruct (sp_prim szp _ bs) as [[[szv n] r1]|] eqn:Ep; [|discriminate].
    destruct (split_at n r1) as [[region rest']|] eqn:Es; [|discriminate].
    destruct (sp_counted _ _ _ _ _) as [[lv [|x xs]]|]; try discriminate. intros [= _ <-].
    destruct (sp_prim_some _ _ _ _ _ _ Ep) as (h & -> & _). destruct (split_at_some _ _ _ _ Es) as (-> & _).
    unfold blen. rewrite !app_length. lia.
  Qed.

  Lemma enc_param_sim pa bs v rest s :
    sp_enc_param T pa bs = Some (v, rest) -> ok_leaves abort v = true -> wf_st s -> inp s = bs ->
    fits (view s) (blen bs - blen rest) ->
    ok_run (dec_enc_param T abort pa) s (items_of v) rest (fun a => as_typed_int a = None).
  Proof.
    unfold sp_enc_param, dec_enc_param.
    destruct (t_enc_param T) as [| |name szf buf szp [ep| | | |]| |]; try discriminate.
    intros H AV W I F.
    apply (tpm2b_list_sim abort (fun p b => match sp_prim ep p b with Some (v, _, r) => Some (v, r) | None => None end)
                          (dec_prim abort ep)) with (bs := bs); try assumption.
    - intros p b v0 r s0 Hf AV0 W0 I0 L0 F0.
      destruct (sp_prim ep p b) as [[[v1 z1] r1]|] eqn:Ep; [|discriminate]. injection Hf as <- <-.
      destruct (sp_prim_some _ _ _ _ _ _ Ep) as (h & _ & _ & _ & _ & Hv). subst v1. cbn [ok_leaves] in AV0.
      eapply ok_weaken; [|apply (sim_prim abort ep p b _ z1 r1 s0 Ep AV0 W0 I0 F0)]. intros; exact Logic.I.
    - intros p. apply incr_dec_prim.
  Qed.

  Lemma catch_ok A ab ids (m h : M A) s tr s' a : m s = (tr, s', Ok a) -> catch_exceeded ab ids m h s = (tr, s', Ok a).
  Proof. intros E. unfold catch_exceeded. rewrite E. reflexivity. Qed.

  Lemma val_ok_node pa t kids a : as_typed_int a = None -> val_ok (SNode pa t kids) a.
  Proof. intros H. exact H. Qed.

  (** the root of a specified value sits at the path it was read for *)
  Lemma sp_tpm2b_list_path name szf buf szp lid f pa bs v rest :
    sp_tpm2b_list name szf buf szp lid f pa bs = Some (v, rest) -> exists kids, v = SNode pa (TyN name) kids.
  Proof.
    unfold sp_tpm2b_list. destruct (sp_prim szp _ bs) as [[[szv n] r1]|]; [|discriminate].
    destruct (split_at n r1) as [[region rest']|]; [|discriminate].
    destruct (sp_counted _ _ _ _ _) as [[lv [|x xs]]|]; try discriminate. intros [= <- _]. eexists; reflexivity.
  Qed.

  Lemma sp_ty_path t pa sel enc bs v r : sp_ty T t pa sel enc bs = Some (v, r) -> sv_path v = pa.
  Proof.
    destruct t as [p|name isparams fs|name szf buf szp elem|name szf buf szp inner|name ar].
    - rewrite sp_ty_prim. destruct (sp_prim p pa bs) as [[[v0 z] r0]|] eqn:Ep; [|discriminate]. intros [= <- _].
      destruct (sp_prim_some _ _ _ _ _ _ Ep) as (h & _ & _ & _ & _ & ->). reflexivity.
    - rewrite sp_ty_struct. destruct (enc && isparams && first_is_tpm2b fs).
      + destruct fs as [|n t r0|n e r0|n sl u r0]; try discriminate.
        destruct (sp_enc_param T (pchild pa n) bs) as [[v0 r1]|]; [|discriminate].
        destruct (sp_fields T r0 pa _ r1) as [[kids r2]|]; [|discriminate]. intros [= <- _]. reflexivity.
      + destruct (sp_fields T fs pa [] bs) as [[kids r0]|]; [|discriminate]. intros [= <- _]. reflexivity.
    - rewrite sp_ty_tpm2b_list. intros H. destruct (sp_tpm2b_list_path _ _ _ _ _ _ _ _ _ _ H) as [kids ->]. reflexivity.
    - rewrite sp_ty_tpm2b_struct. destruct (sp_prim szp _ bs) as [[[szv n] r1]|]; [|discriminate].
      destruct (n =? 0); [intros [= <- _]; reflexivity|].
      destruct (split_at n r1) as [[region rest']|]; [|discriminate].
      destruct (sp_ty T inner _ None false region) as [[iv [|x xs]]|]; try discriminate. intros [= <- _]. reflexivity.
    - rewrite sp_ty_union. destruct (select_arm ar sel) as [[n ap]|]; [|discriminate].
      destruct (sp_arms T ar pa n bs) as [[kids r0]|]; [|discriminate]. intros [= <- _]. reflexivity.
  Qed.

  Lemma last_name_child pa n : last_name (pchild pa n) = n.
  Proof. unfold last_name, pchild. rewrite rev_app_distr. reflexivity. Qed.

  Lemma kid_info_at v pa n : sv_path v = pchild pa n ->
    kid_info v = (n, match v with SPrim _ p z => Some (pname p, z) | _ => None end).
  Proof. intros H. unfold kid_info. rewrite H, last_name_child. destruct v; reflexivity. Qed.

  Lemma R_snoc_kid kids k rs vals : R (rev (map kid_info kids) ++ kid_info k :: rs) vals -> R (rev (map kid_info (k :: kids)) ++ rs) vals.
  Proof. cbn [map rev]. rewrite <- app_assoc. exact (fun H => H). Qed.

  (** a structure's by-product value: its fields in order, primitive fields carrying the specified values *)
  Definition struct_post (v : sv) (a : option value) : Prop :=
    match v with
    | SNode _ tid kids => exists vals, a = Some (VStruct_ tid (rev vals)) /\ R (rev (map kid_info kids)) vals
    | SPrim _ _ _ => False
    end.

  Lemma struct_case name isparams fs : Sim_fields fs -> forall pa sel enc bs v rest s,
    sp_ty T (TStruct name isparams fs) pa sel enc bs = Some (v, rest) -> ok_leaves abort v = true -> wf_st s -> inp s = bs ->
    blen rest <= blen bs -> fits (view s) (blen bs - blen rest) ->
    ok_run (dec_ty T abort (TStruct name isparams fs) pa sel enc) s (items_of v) rest (struct_post v).
  Proof.
      intros [IHf IHt] pa sel enc bs v rest s H AV W I L F. rewrite sp_ty_struct in H. rewrite dec_ty_struct. cbv zeta.
      destruct (enc && isparams && first_is_tpm2b fs) eqn:UE.
      + destruct fs as [|n t r|n e r|n sl u r]; try discriminate.
        destruct (sp_enc_param T (pchild pa n) bs) as [[v0 r1]|] eqn:Ee; [|discriminate].
        destruct (sp_fields T r pa [(n, None)] r1) as [[kids r2]|] eqn:Ef; [|discriminate]. injection H as <- <-.
        cbn [ok_leaves forallb] in AV. apply andb_prop in AV as [AV0 AVk].
        assert (L1 : blen r1 <= blen bs).
        { unfold sp_enc_param in Ee. destruct (t_enc_param T) as [| |? ? ? ? [ep| | | |]| |]; try discriminate.
          eapply sp_tpm2b_list_len. exact Ee. }
        assert (K0 : kid_info v0 = (n, None)).
        { unfold sp_enc_param in Ee. destruct (t_enc_param T) as [| |? ? ? ? [ep| | | |]| |]; try discriminate.
          destruct (sp_tpm2b_list_path _ _ _ _ _ _ _ _ _ _ Ee) as [ks ->]. unfold kid_info. cbn [sv_path]. rewrite last_name_child. reflexivity. }
        pose proof (sp_fields_len _ _ _ _ _ _ Ef) as L2.
        destruct (fits_split (view s) (blen bs - blen r1) (blen r1 - blen r2) ltac:(lia) ltac:(lia)
                    ltac:(replace (blen bs - blen r1 + (blen r1 - blen r2)) with (blen bs - blen r2) by lia; exact F)) as [F1 F2].
        replace (items_of (SNode pa (TyEnc name) (v0 :: kids)))
          with ([INode pa (TyEnc name)] ++ ((items_of v0 ++ flat_map items_of kids) ++ [])) by (cbn [items_of flat_map app]; rewrite app_nil_r; reflexivity).
        apply ok_bind with (mid := inp s) (P := fun _ => True); [apply ok_sev; exact W|]. intros s1 _ W1 I1 V1 _.
        apply ok_bind with (mid := r2) (P := fun vals => R (rev (map kid_info (v0 :: kids)) ++ []) vals).
        * apply ok_bind with (mid := r1) (P := fun a => as_typed_int a = None).
          -- apply (enc_param_sim _ _ _ _ _ Ee AV0 W1 ltac:(congruence)).
             rewrite V1, I. replace (blen bs - blen bs) with 0 by lia. rewrite bump_0. exact F1.
          -- intros s2 a W2 I2 V2 Ha. eapply ok_weaken; [|apply (IHt pa [(n, None)] [(n, a)] r1 kids r2 s2 Ef AVk); [|exact W2|exact I2|]].
             ++ intros vals HRv. apply R_snoc_kid. rewrite K0. exact HRv.
             ++ constructor; [split; [reflexivity|exact Ha]|constructor].
             ++ rewrite V2, I1, V1, I. replace (blen bs - blen bs) with 0 by lia. rewrite bump_0. exact F2.
        * intros s3 vals W3 I3 V3 HRv. apply ok_ret'; [exact W3|exact I3|]. cbn [struct_post]. exists vals.
          split; [reflexivity|]. rewrite app_nil_r in HRv. exact HRv.
      + destruct (sp_fields T fs pa [] bs) as [[kids r]|] eqn:Ef; [|discriminate]. injection H as <- <-.
        cbn [ok_leaves] in AV.
        replace (items_of (SNode pa (TyN name) kids))
          with ([INode pa (TyN name)] ++ (flat_map items_of kids ++ [])) by (cbn [items_of app]; rewrite app_nil_r; reflexivity).
        apply ok_bind with (mid := inp s) (P := fun _ => True); [apply ok_sev; exact W|]. intros s1 _ W1 I1 V1 _.
        apply ok_bind with (mid := r) (P := fun vals => R (rev (map kid_info kids) ++ []) vals).
        * apply (IHf pa [] [] bs kids r s1 Ef AV ltac:(constructor) W1 ltac:(congruence)).
          rewrite V1, I. replace (blen bs - blen bs) with 0 by lia. rewrite bump_0. exact F.
        * intros s3 vals W3 I3 V3 HRv. apply ok_ret'; [exact W3|exact I3|]. cbn [struct_post]. exists vals.
          split; [reflexivity|]. rewrite app_nil_r in HRv. exact HRv.
  Qed.

  Theorem sim_all : (forall t, Sim_ty t) /\ (forall fs, Sim_fields fs) /\ (forall ar, Sim_arms ar) /\ (forall p, Sim_armp p).
  Proof.
    apply ty_mutind.
    - (* TPrim *)
      intros p pa sel enc bs v rest s H AV W I L F. rewrite sp_ty_prim in H. change (dec_ty T abort (TPrim p) pa sel enc) with (dec_prim abort p pa).
      destruct (sp_prim p pa bs) as [[[v0 z] r]|] eqn:Ep; [|discriminate]. injection H as <- <-.
      destruct (sp_prim_some _ _ _ _ _ _ Ep) as (h & _ & _ & _ & _ & Hv). subst v0. cbn [ok_leaves] in AV.
      eapply ok_weaken; [|apply (sim_prim abort p pa bs _ z r s Ep AV W I F)]. intros a ->. reflexivity.
    - (* TStruct *)
      intros name isparams fs IH pa sel enc bs v rest s H AV W I L F.
      eapply ok_weaken; [|apply (struct_case name isparams fs IH pa sel enc bs v rest s H AV W I L F)].
      intros a Ha. destruct v as [? ? ?|pa0 tid kids]; cbn [struct_post] in Ha; [contradiction|].
      destruct Ha as (vals & -> & _). reflexivity.
    - (* TTpm2bList *)
      intros name szf buf szp elem IH pa sel enc bs v rest s H AV W I L F. rewrite sp_ty_tpm2b_list in H. rewrite dec_ty_tpm2b_list.
      assert (Hv : exists kids, v = SNode pa (TyN name) kids).
      { unfold sp_tpm2b_list in H. destruct (sp_prim szp _ bs) as [[[szv n] r1]|]; [|discriminate].
        destruct (split_at n r1) as [[region rest']|]; [|discriminate].
        destruct (sp_counted _ _ _ _ _) as [[lv [|x xs]]|]; try discriminate. injection H as <- _. eexists; reflexivity. }
      destruct Hv as [kids ->].
      eapply ok_weaken; [|apply (tpm2b_list_sim abort (fun p b => sp_ty T elem p None false b) (fun p => dec_ty T abort elem p None false)) with (bs := bs); try eassumption].
      + intros a Ha. exact Ha.
      + intros p b v0 r s0 Hf AV0 W0 I0 L0 F0. eapply ok_weaken; [|apply (IH p None false b v0 r s0 Hf AV0 W0 I0 L0 F0)]. intros; exact Logic.I.
      + intros p. apply incr_dec_ty.
    - (* TTpm2bStruct *)
      intros name szf buf szp inner IH pa sel enc bs v rest s H AV W I L F. rewrite sp_ty_tpm2b_struct in H. rewrite dec_ty_tpm2b_struct. cbv zeta.
      destruct (sp_prim szp (pchild pa szf) bs) as [[[szv n] r1]|] eqn:Ep; [|discriminate].
      destruct (sp_prim_some _ _ _ _ _ _ Ep) as (h & Hbs & Hl & Hw & Hz & Hszv).
      destruct (n =? 0) eqn:Hn0.
      + (* empty payload *)
        apply Z.eqb_eq in Hn0. subst n. injection H as <- <-.
        cbn [ok_leaves forallb] in AV. apply andb_prop in AV as [AVs _]. assert (Vs : negb abort || valid szp 0 = true) by (subst szv; exact AVs).
        assert (HN : blen bs - blen r1 = pwidth szp) by (rewrite Hbs; unfold blen in *; rewrite app_length; lia).
        rewrite HN in F.
        assert (P1 : ok_run (dec_prim abort szp (pchild pa szf)) s (items_of szv) r1 (fun a => a = Some (VInt_ (pname szp) 0))).
        { apply (sim_prim abort szp (pchild pa szf) bs szv 0 r1 s Ep Vs W I). rewrite HN. exact F. }
        destruct P1 as (tr1 & s1 & a1 & c1 & E1 & Sh1 & Ic1 & I1 & V1 & W1 & Fr1 & ->).
        assert (Lc1 : blen c1 = pwidth szp).
        { rewrite I, Hbs in Ic1. apply (f_equal (@List.length Z)) in Ic1. rewrite !app_length in Ic1. unfold blen in *. lia. }
        rewrite Lc1 in V1.
        destruct (new_sc_spec s1 W1) as (s2 & E2 & I2 & L2 & V2 & W2 & Len2 & G2 & Fr2).
        set (cid := List.length (store s1)) in *.
        assert (Fresh : ~ In cid (ids_of (view s2))) by (rewrite V2; apply fresh_not_in_view, W1).
        destruct (set_constraint_spec abort cid (pchild pa szf) 0 s2 W2 ltac:(lia) ltac:(lia)) as (s3 & E3 & I3 & L3 & V3 & W3 & Len3 & G3 & G3' & Fr3).
        { rewrite V2, V1. apply Forall_forall. intros e He. right.
          assert (F0 : fits (bump (pwidth szp) (view s)) 0) by (apply (fits_split (view s) (pwidth szp) 0 Hw ltac:(lia)); rewrite Z.add_0_r; exact F).
          unfold fits in F0. rewrite Forall_forall in F0. apply F0, He. }
        rewrite (map_set_entry_fresh cid 0 _ Fresh) in V3.
        assert (NotListed : ~ In cid (lst s3)).
        { rewrite L3, L2. intros Hx. destruct W1 as [_ AL]. rewrite Forall_forall in AL. specialize (AL _ Hx). unfold cid in AL. lia. }
        destruct (append_lst_spec cid s3 W3 NotListed ltac:(lia)) as (s4 & E4 & I4 & St4 & V4 & W4 & Fr4).
        { rewrite G3, G2. reflexivity. }
        assert (Ent : entry_of s3 cid = (cid, Some 0, 0)) by (unfold entry_of; rewrite G3, G2; reflexivity).
        rewrite Ent, V3, V2, V1 in V4.
        destruct (assert_done_spec abort cid 0 (bump (pwidth szp) (view s)) s4 W4 V4) as (s6 & E6 & I6 & L6 & V6 & W6 & _ & Fr6 & _).
        { rewrite ids_bump. intros Hx. apply Fresh. rewrite V2, V1, ids_bump. exact Hx. }
        exists (sev pa (TyN name) :: tr1 ++ [sev (pchild pa buf) (ty_id inner)]), s6,
               (Some (VStruct_ (TyN name) [(szf, Some (VInt_ (pname szp) 0)); (buf, None)])), c1.
        split.
        * unfold bind at 1. cbn [emit]. unfold bind at 1. rewrite E1. cbn [as_int].
          unfold bind at 1. rewrite E2. unfold bind at 1. fold cid. rewrite E3. unfold bind at 1. rewrite E4.
          cbn [Z.eqb]. unfold bind at 1. cbn [emit]. unfold bind at 1. rewrite E6. cbn [ret app]. rewrite ?app_nil_r. reflexivity.
        * split.
          -- cbn [items_of flat_map]. rewrite app_nil_r. apply (sh_node pa (TyN name)).
             replace (items_of szv ++ [INode (pchild pa buf) (ty_id inner)]) with (items_of szv ++ [INode (pchild pa buf) (ty_id inner)]) by reflexivity.
             apply shape_app; [exact Sh1|]. apply (sh_node (pchild pa buf) (ty_id inner)). constructor.
          -- split; [exact Ic1|]. split; [congruence|]. split; [|split; [exact W6|split; [exact (frame_chain _ _ _ _ _ _ _ cid Fr1 Fr2 eq_refl Fr3 Fr4 (frame_refl s4) Fr6)|reflexivity]]].
             rewrite V6, Lc1. reflexivity.
      + (* structured payload in its region *)
        apply Z.eqb_neq in Hn0.
        destruct (split_at n r1) as [[region rest']|] eqn:Es; [|discriminate].
        destruct (sp_ty T inner (pchild pa buf) None false region) as [[iv [|x xs]]|] eqn:Ei; try discriminate.
        injection H as <- <-.
        destruct (split_at_some _ _ _ _ Es) as (Hr1 & Hrl & Hnn).
        cbn [ok_leaves forallb] in AV. apply andb_prop in AV as [AVs AVi]. apply andb_prop in AVi as [AVi _].
        assert (Vs : negb abort || valid szp n = true) by (subst szv; exact AVs).
        assert (HN : blen bs - blen rest' = pwidth szp + n).
        { rewrite Hbs, Hr1. unfold blen in *. rewrite !app_length. lia. }
        rewrite HN in F. destruct (fits_split _ _ _ Hw Hnn F) as [F1 F2].
        assert (P1 : ok_run (dec_prim abort szp (pchild pa szf)) s (items_of szv) r1 (fun a => a = Some (VInt_ (pname szp) n))).
        { apply (sim_prim abort szp (pchild pa szf) bs szv n r1 s Ep Vs W I).
          replace (blen bs - blen r1) with (pwidth szp) by (rewrite Hbs; unfold blen in *; rewrite app_length; lia). exact F1. }
        destruct P1 as (tr1 & s1 & a1 & c1 & E1 & Sh1 & Ic1 & I1 & V1 & W1 & Fr1 & ->).
        assert (Lc1 : blen c1 = pwidth szp).
        { rewrite I, Hbs in Ic1. apply (f_equal (@List.length Z)) in Ic1. rewrite !app_length in Ic1. unfold blen in *. lia. }
        rewrite Lc1 in V1.
        destruct (new_sc_spec s1 W1) as (s2 & E2 & I2 & L2 & V2 & W2 & Len2 & G2 & Fr2).
        set (cid := List.length (store s1)) in *.
        assert (Fresh : ~ In cid (ids_of (view s2))) by (rewrite V2; apply fresh_not_in_view, W1).
        destruct (set_constraint_spec abort cid (pchild pa szf) n s2 W2 Hnn ltac:(lia)) as (s3 & E3 & I3 & L3 & V3 & W3 & Len3 & G3 & G3' & Fr3).
        { rewrite V2, V1. apply Forall_forall. intros e He. right. unfold fits in F2. rewrite Forall_forall in F2. apply F2, He. }
        rewrite (map_set_entry_fresh cid n _ Fresh) in V3.
        assert (NotListed : ~ In cid (lst s3)).
        { rewrite L3, L2. intros Hx. destruct W1 as [_ AL]. rewrite Forall_forall in AL. specialize (AL _ Hx). unfold cid in AL. lia. }
        destruct (append_lst_spec cid s3 W3 NotListed ltac:(lia)) as (s4 & E4 & I4 & St4 & V4 & W4 & Fr4).
        { rewrite G3, G2. reflexivity. }
        assert (Ent : entry_of s3 cid = (cid, Some n, 0)) by (unfold entry_of; rewrite G3, G2; reflexivity).
        rewrite Ent, V3, V2, V1 in V4.
        set (s4r := mkSt region (store s4) (lst s4)).
        assert (Pin : ok_run (dec_ty T abort inner (pchild pa buf) None false) s4r (items_of iv) [] (val_ok iv)).
        { apply (IH (pchild pa buf) None false region iv [] s4r Ei AVi W4 eq_refl); [unfold blen; cbn; lia|].
          change (view s4r) with (view s4). rewrite V4. replace (blen region - blen []) with n by (unfold blen in *; cbn; lia).
          apply Forall_app. split; [exact F2|]. constructor; [cbn; lia|constructor]. }
        apply (ok_run_ext _ _ _ _ _ rest' _ (incr_dec_ty T abort inner (pchild pa buf) None false)) in Pin.
        cbn [app] in Pin.
        assert (Es4 : ext s4r rest' = s4).
        { unfold ext, s4r. cbn [inp store lst]. destruct s4 as [i4 st4 l4]. cbn [inp store lst] in *. f_equal. congruence. }
        rewrite Es4 in Pin.
        destruct Pin as (tr5 & s5 & a5 & c5 & E5 & Sh5 & Ic5 & I5 & V5 & W5 & Fr5 & Pa5).
        assert (Lc5 : blen c5 = n).
        { assert (Hi4 : inp s4 = region ++ rest') by congruence. rewrite Hi4 in Ic5. apply (f_equal (@List.length Z)) in Ic5.
          rewrite !app_length in Ic5. unfold blen in *. lia. }
        rewrite Lc5, V4, bump_app, bump_bump in V5. cbn [bump map bump_entry] in V5. rewrite Z.add_0_l in V5.
        destruct (assert_done_spec abort cid n (bump (pwidth szp + n) (view s)) s5 W5 V5) as (s6 & E6 & I6 & L6 & V6 & W6 & _ & Fr6 & _).
        { rewrite ids_bump. intros Hx. apply Fresh. rewrite V2, V1, ids_bump. exact Hx. }
        exists (sev pa (TyN name) :: tr1 ++ tr5), s6, (Some (VStruct_ (TyN name) [(szf, Some (VInt_ (pname szp) n)); (buf, a5)])), (c1 ++ c5).
        split.
        * unfold bind at 1. cbn [emit]. unfold bind at 1. rewrite E1. cbn [as_int].
          unfold bind at 1. rewrite E2. unfold bind at 1. fold cid. rewrite E3. unfold bind at 1. rewrite E4.
          replace (n =? 0) with false by lia.
          erewrite catch_ok; [|unfold bind at 1; rewrite E5; unfold bind at 1; rewrite E6; cbn [ret]; reflexivity].
          cbn [app]. rewrite ?app_nil_r. reflexivity.
        * split.
          -- cbn [items_of flat_map]. rewrite app_nil_r. apply (sh_node pa (TyN name)). apply shape_app; assumption.
          -- split; [rewrite Ic1, <- I1; cbn; rewrite <- app_assoc; f_equal; congruence|].
             split; [congruence|]. split; [|split; [exact W6|split; [exact (frame_chain _ _ _ _ _ _ _ cid Fr1 Fr2 eq_refl Fr3 Fr4 Fr5 Fr6)|reflexivity]]].
             rewrite V6. f_equal. unfold blen in *. rewrite app_length. lia.
    - (* TUnion *)
      intros name ar IH pa sel enc bs v rest s H AV W I L F. rewrite sp_ty_union in H. rewrite dec_ty_union.
      destruct (select_arm ar sel) as [[n ap]|]; [|discriminate].
      destruct (sp_arms T ar pa n bs) as [[kids r]|] eqn:Ea; [|discriminate]. injection H as <- <-.
      cbn [ok_leaves] in AV.
      replace (items_of (SNode pa (TyN name) kids)) with ([INode pa (TyN name)] ++ flat_map items_of kids) by reflexivity.
      apply ok_bind with (mid := inp s) (P := fun _ => True); [apply ok_sev; exact W|]. intros s1 _ W1 I1 V1 _.
      apply (IH name pa n bs kids r s1 Ea AV W1 ltac:(congruence)).
      rewrite V1, I. replace (blen bs - blen bs) with 0 by lia. rewrite bump_0. exact F.
    - (* FNil *)
      split; [|exact Logic.I]. intros pa rs rd bs kids rest s H AV HR W I F. cbn [sp_fields dec_fields] in *.
      injection H as <- <-. apply ok_ret'; [exact W|exact I|exact HR].
    - (* FPlain *)
      intros n t IHt r [IHr _]. split; [|exact IHr]. intros pa rs rd bs kids rest s H AV HR W I F.
      rewrite sp_fields_plain in H. rewrite dec_fields_plain.
      destruct (chk bs (sp_ty T t (pchild pa n) None false bs)) as [[v r1]|] eqn:C; [|discriminate].
      destruct (chk_some _ _ _ _ C) as [Hs L1]. cbv zeta in H.
      destruct (sp_fields T r pa _ r1) as [[vs r2]|] eqn:Ef; [|discriminate]. injection H as <- <-.
      pose proof (sp_fields_len _ _ _ _ _ _ Ef) as L2.
      cbn [forallb] in AV. apply andb_prop in AV as [AV1 AV2].
      destruct (fits_split (view s) (blen bs - blen r1) (blen r1 - blen r2) ltac:(lia) ltac:(lia)
                  ltac:(replace (blen bs - blen r1 + (blen r1 - blen r2)) with (blen bs - blen r2) by lia; exact F)) as [F1 F2].
      cbn [flat_map]. apply ok_bind with (mid := r1) (P := val_ok v).
      + apply (IHt (pchild pa n) None false bs v r1 s Hs AV1 W I L1 F1).
      + intros s1 a W1 I1 V1 Ha. eapply ok_weaken; [|apply (IHr pa _ ((n, a) :: rd) r1 vs r2 s1 Ef AV2); [|exact W1|exact I1|rewrite V1, I; exact F2]].
        * intros vals HRv. apply R_snoc_kid. rewrite (kid_info_at v pa n (sp_ty_path _ _ _ _ _ _ _ Hs)). exact HRv.
        * constructor; [|exact HR]. split; [reflexivity|]. cbn [snd]. destruct v as [? p z|? ? ?]; cbn [val_ok] in Ha; [exact Ha|exact Ha].
    - (* FList *)
      intros n elem IHe r [IHr _]. split; [|exact Logic.I]. intros pa rs rd bs kids rest s H AV HR W I F.
      rewrite sp_fields_list in H. rewrite dec_fields_list.
      destruct rs as [|[cn [[tn c]|]] rs']; try discriminate.
      destruct (R_head_count _ _ _ _ _ HR) as (cv & Hcv & Hc). rewrite Hcv, Hc.
      destruct (chk bs _) as [[v r1]|] eqn:C; [|discriminate]. destruct (chk_some _ _ _ _ C) as [Hs L1].
      destruct (sp_fields T r pa _ r1) as [[vs r2]|] eqn:Ef; [|discriminate]. injection H as <- <-.
      pose proof (sp_fields_len _ _ _ _ _ _ Ef) as L2.
      cbn [forallb] in AV. apply andb_prop in AV as [AV1 AV2].
      destruct (fits_split (view s) (blen bs - blen r1) (blen r1 - blen r2) ltac:(lia) ltac:(lia)
                  ltac:(replace (blen bs - blen r1 + (blen r1 - blen r2)) with (blen bs - blen r2) by lia; exact F)) as [F1 F2].
      cbn [flat_map]. apply ok_bind with (mid := r1) (P := fun a => as_typed_int a = None).
      + apply (array_sim abort (fun p b => sp_ty T elem p None false b) (fun p => dec_ty T abort elem p None false)) with (bs := bs); try assumption.
        intros p b v0 r0 s0 Hf AV0 W0 I0 L0 F0. eapply ok_weaken; [|apply (IHe p None false b v0 r0 s0 Hf AV0 W0 I0 L0 F0)]. intros; exact Logic.I.
      + intros s1 a W1 I1 V1 Ha. eapply ok_weaken; [|apply (IHr pa _ ((n, a) :: rd) r1 vs r2 s1 Ef AV2); [|exact W1|exact I1|rewrite V1, I; exact F2]].
        * intros vals HRv. apply R_snoc_kid.
          assert (Hk : kid_info v = (n, None)).
          { unfold sp_counted in Hs. destruct (Z.of_nat (List.length bs) <? c); [discriminate|].
            destruct (sp_elems _ _ _ _ _) as [[es re]|]; [|discriminate]. injection Hs as <- _.
            unfold kid_info. cbn [sv_path]. rewrite last_name_child. reflexivity. }
          rewrite Hk. exact HRv.
        * constructor; [|exact HR]. split; [reflexivity|exact Ha].
    - (* FUnion *)
      intros n seln u IHu r [IHr _]. split; [|exact Logic.I]. intros pa rs rd bs kids rest s H AV HR W I F.
      rewrite sp_fields_union in H. rewrite dec_fields_union.
      destruct (lookupS seln rs) as [[tz|]|] eqn:Lk; try discriminate.
      destruct (R_lookup _ _ _ _ HR Lk) as (sv_ & Lkd & Hsv). rewrite Lkd, Hsv.
      destruct (chk bs _) as [[v r1]|] eqn:C; [|discriminate]. destruct (chk_some _ _ _ _ C) as [Hs L1]. cbv zeta in H.
      destruct (sp_fields T r pa _ r1) as [[vs r2]|] eqn:Ef; [|discriminate]. injection H as <- <-.
      pose proof (sp_fields_len _ _ _ _ _ _ Ef) as L2.
      cbn [forallb] in AV. apply andb_prop in AV as [AV1 AV2].
      destruct (fits_split (view s) (blen bs - blen r1) (blen r1 - blen r2) ltac:(lia) ltac:(lia)
                  ltac:(replace (blen bs - blen r1 + (blen r1 - blen r2)) with (blen bs - blen r2) by lia; exact F)) as [F1 F2].
      cbn [flat_map]. apply ok_bind with (mid := r1) (P := val_ok v).
      + apply (IHu (pchild pa n) (Some tz) false bs v r1 s Hs AV1 W I L1 F1).
      + intros s1 a W1 I1 V1 Ha. eapply ok_weaken; [|apply (IHr pa _ ((n, a) :: rd) r1 vs r2 s1 Ef AV2); [|exact W1|exact I1|rewrite V1, I; exact F2]].
        * intros vals HRv. apply R_snoc_kid. rewrite (kid_info_at v pa n (sp_ty_path _ _ _ _ _ _ _ Hs)). exact HRv.
        * constructor; [|exact HR]. split; [reflexivity|]. cbn [snd]. destruct v as [? p z|? ? ?]; cbn [val_ok] in Ha; [exact Ha|exact Ha].
    - (* ANil *) intros uname pa target bs kids rest s H. discriminate.
    - (* ACons *)
      intros n key p IHp r IHr uname pa target bs kids rest s H AV W I F.
      rewrite sp_arms_cons in H. rewrite dec_arms_cons.
      destruct (String.eqb n target); [|apply (IHr uname pa target bs kids rest s H AV W I F)].
      destruct p as [|t|elem [cnt|]]; try discriminate.
      + injection H as <- <-. apply ok_ret'; [exact W|exact I|reflexivity].
      + destruct (chk bs _) as [[v r1]|] eqn:C; [|discriminate]. destruct (chk_some _ _ _ _ C) as [Hs L1]. injection H as <- <-.
        cbn [forallb flat_map] in *. apply andb_prop in AV as [AV1 _]. rewrite app_nil_r.
        rewrite <- (app_nil_r (items_of v)). apply ok_bind with (mid := r1) (P := fun _ => True).
        * eapply ok_weaken; [|apply (IHp (pchild pa n) None false bs v r1 s Hs AV1 W I L1 F)]. intros; exact Logic.I.
        * intros s1 a W1 I1 V1 _. apply ok_ret'; [exact W1|exact I1|reflexivity].
      + destruct (chk bs _) as [[v r1]|] eqn:C; [|discriminate]. destruct (chk_some _ _ _ _ C) as [Hs L1]. injection H as <- <-.
        cbn [forallb flat_map] in *. apply andb_prop in AV as [AV1 _]. rewrite app_nil_r.
        rewrite <- (app_nil_r (items_of v)). apply ok_bind with (mid := r1) (P := fun _ => True).
        * eapply ok_weaken; [|apply (array_sim abort (fun p b => sp_ty T elem p None false b) (fun p => dec_ty T abort elem p None false)) with (bs := bs); try eassumption].
          -- intros; exact Logic.I.
          -- intros p b v0 r0 s0 Hf AV0 W0 I0 L0 F0. eapply ok_weaken; [|apply (IHp p None false b v0 r0 s0 Hf AV0 W0 I0 L0 F0)]. intros; exact Logic.I.
        * intros s1 a W1 I1 V1 _. apply ok_ret'; [exact W1|exact I1|reflexivity].
    - exact Logic.I.
    - intros t IH. exact IH.
    - intros elem IH n. exact IH.
  Qed.
  (** the by-product value of a structure (after the induction) *)
  Lemma struct_value_sim name isparams fs pa sel enc bs v rest s :
    sp_ty T (TStruct name isparams fs) pa sel enc bs = Some (v, rest) -> ok_leaves abort v = true -> wf_st s -> inp s = bs ->
    blen rest <= blen bs -> fits (view s) (blen bs - blen rest) ->
    ok_run (dec_ty T abort (TStruct name isparams fs) pa sel enc) s (items_of v) rest (struct_post v).
  Proof. apply struct_case. apply sim_all. Qed.

  Lemma sp_ty_len t pa sel enc bs v r : sp_ty T t pa sel enc bs = Some (v, r) -> blen r <= blen bs.
  Proof.
    destruct t as [p|name isparams fs|name szf buf szp elem|name szf buf szp inner|name ar].
    - rewrite sp_ty_prim. destruct (sp_prim p pa bs) as [[[v0 z] r0]|] eqn:Ep; [|discriminate]. intros [= _ <-].
      destruct (sp_prim_some _ _ _ _ _ _ Ep) as (h & -> & _). unfold blen. rewrite app_length. lia.
    - rewrite sp_ty_struct. destruct (enc && isparams && first_is_tpm2b fs).
      + destruct fs as [|n t r0|n e r0|n sl u r0]; try discriminate.
        destruct (sp_enc_param T (pchild pa n) bs) as [[v0 r1]|] eqn:Ee; [|discriminate].
        destruct (sp_fields T r0 pa _ r1) as [[kids r2]|] eqn:Ef; [|discriminate]. intros [= _ <-].
        pose proof (sp_fields_len _ _ _ _ _ _ Ef). unfold sp_enc_param in Ee.
        destruct (t_enc_param T) as [| |? ? ? ? [ep| | | |]| |]; try discriminate.
        pose proof (sp_tpm2b_list_len _ _ _ _ _ _ _ _ _ _ Ee). lia.
      + destruct (sp_fields T fs pa [] bs) as [[kids r0]|] eqn:Ef; [|discriminate]. intros [= _ <-].
        exact (sp_fields_len _ _ _ _ _ _ Ef).
    - rewrite sp_ty_tpm2b_list. apply sp_tpm2b_list_len.
    - rewrite sp_ty_tpm2b_struct. destruct (sp_prim szp _ bs) as [[[szv n] r1]|] eqn:Ep; [|discriminate].
      destruct (sp_prim_some _ _ _ _ _ _ Ep) as (h & -> & _).
      destruct (n =? 0); [intros [= _ <-]; unfold blen; rewrite app_length; lia|].
      destruct (split_at n r1) as [[region rest']|] eqn:Es; [|discriminate].
      destruct (sp_ty T inner _ None false region) as [[iv [|x xs]]|]; try discriminate. intros [= _ <-].
      destruct (split_at_some _ _ _ _ Es) as (-> & _). unfold blen. rewrite !app_length. lia.
    - rewrite sp_ty_union. destruct (select_arm ar sel) as [[n ap]|]; [|discriminate].
      destruct (sp_arms T ar pa n bs) as [[kids r0]|] eqn:Ea; [|discriminate]. intros [= _ <-].
      exact (sp_arms_len _ _ _ _ _ _ Ea).
  Qed.
End Main.
