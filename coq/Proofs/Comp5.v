(** Completeness, part 5: responses; the Command and Response roots through the byte pump. *)
From Coq Require Import ZArith List String Bool Lia ZifyBool.
From TV Require Import Layout.Types Base.Bytes Model.Monad Model.Constraints Model.Ints Model.Decoder Model.Message Model.Pump
  Spec.Value Spec.Message Proofs.Closure Proofs.LowClosure Proofs.Account Proofs.Incremental Proofs.Agree Proofs.OpLemmas
  Proofs.Sim1 Proofs.Sim2 Proofs.Sim3 Proofs.Sim4 Proofs.Sim5 Proofs.Sim7 Proofs.Sim8 Proofs.Sim9 Proofs.Sim10 Proofs.Sim12
  Proofs.Safe1 Proofs.Safe2 Proofs.Safe3 Proofs.Comp1 Proofs.Comp2 Proofs.Comp3 Proofs.Comp4.
Import ListNotations.
Open Scope string_scope.
Open Scope list_scope.
Open Scope Z_scope.

Ltac binv E tr1 s1 a E1 :=
  let o := fresh "o" in let R := fresh "R" in let E2 := fresh "E" in let tr2 := fresh "tr" in
  destruct (bind_inv _ _ _ _ _ _ _ _ E) as (tr1 & s1 & o & E1 & R);
  destruct o as [a| | | |]; try (destruct R as [R _]; discriminate);
  destruct R as (tr2 & E2 & ->); clear E; rename E2 into E.

Section RspComp.
  Variable T : tables.
  Hypothesis Hsafe : msg_safe T = true.
  Hypothesis Hlp : msg_lp T = true.
  Hypothesis Hok : msg_tables_ok T = true.

  Let attr := sess_attr_field T.

  (** the end of a response whose own region is still open: it is closed exactly *)
  Lemma rsp_finish_open rid v total al s tr s' a : wf_st s -> view s = [(rid, Some total, al)] ->
    rsp_finish true rid v s = (tr, s', Ok a) -> tr = [] /\ inp s' = inp s /\ al = total.
  Proof.
    intros W Vw E. unfold rsp_finish in E. binv E tr1 s1 u1 X1.
    destruct (oki_of_r2 _ _ _ _ (assert_done_done rid total _ [] s W Vw ltac:(intros [])) _ _ _ X1) as (-> & Hal & I1 & _ & V1 & W1 & _).
    binv E tr2 s2 u2 X2. rewrite (list_assert_done_ok s1 V1) in X2. injection X2 as <- <- <-. injection E as <- <- <-.
    split; [reflexivity|]. split; [exact I1|exact Hal].
  Qed.

  (** ... and one whose region the session list has already closed *)
  Lemma rsp_finish_closed rid v total s tr s' a : view s = [] -> sc_obs (get_sc s rid) = true -> sc_max (get_sc s rid) = Some total ->
    rsp_finish true rid v s = (tr, s', Ok a) -> tr = [] /\ s' = s.
  Proof.
    intros Vw Ho Hm E. unfold rsp_finish in E. binv E tr1 s1 u1 X1.
    rewrite (assert_done_obsolete true rid total s Hm Ho) in X1. injection X1 as <- <- <-.
    binv E tr2 s2 u2 X2. rewrite (list_assert_done_ok s Vw) in X2. injection X2 as <- <- <-. injection E as <- <- <-.
    split; reflexivity.
  Qed.

  (** no sessions: the parameters run to the end of the message *)
  Lemma rsp_rest_plain pa rid pid cc enc v total L s tr s' a :
    wf_st s -> Forall isbyte (inp s) -> view s = [(rid, Some total, L - blen (inp s))] ->
    rsp_rest T true pa rid pid (Some cc) enc false v false s = (tr, s', Ok a) ->
    exists pty pv, lookupZ cc (rsp_params T) = Some pty /\ sp_ty T pty (pchild pa "parameters") None enc (inp s) = Some (pv, inp s') /\
                   shape tr (items_of pv) /\ all_valid pv = true /\ total = L - blen (inp s').
  Proof.
    intros W Hb Vw E. unfold rsp_rest in E.
    destruct (lookupZ cc (rsp_params T)) as [pty|] eqn:Lp; [|discriminate].
    destruct (area_safe T Hsafe cc pty ltac:(right; right; right; exact Lp)) as [Hn Hs].
    pose proof (area_lp T Hlp cc pty ltac:(right; right; right; exact Lp)) as Hl.
    rewrite try_field_strict in E. binv E tr1 s1 pv X1. cbv zeta in E.
    destruct (params_complete T Hsafe Hlp pty _ enc s tr1 s1 pv Hs Hn Hl W Hb X1) as (v1 & Hv & Sh & AV).
    destruct (oki_of_r2 _ _ _ _ (params_r2 T Hsafe pty _ enc s Hs Hn W Hb) _ _ _ X1) as [(V1 & W1 & _) B1].
    pose proof (P_dec_ty T true (@accounts) (lclosed_closed _ accounts_lclosed true) pty (pchild pa "parameters") None enc _ _ _ _ X1) as Hacc.
    rewrite Vw in V1. cbn [bump map bump_entry] in V1.
    binv E tr2 s2 u2 X2. injection X2 as <- <- <-.
    destruct (rsp_finish_open rid _ total _ s1 _ s' a W1 V1 E) as (-> & I' & Hal).
    exists pty, v1. split; [reflexivity|]. rewrite I'. split; [exact Hv|]. rewrite !app_nil_r. split; [exact Sh|]. split; [exact AV|].
    rewrite <- Hal. rewrite Hacc. unfold blen. rewrite app_length. lia.
  Qed.

  (** sessions: the parameters fill their announced region, the session list runs to the end of the message, and
      the encrypt attribute seen there is the one the caller assumed *)
  Lemma rsp_rest_sess pa rid pid cc enc v total psz L s tr s' a : rid <> pid ->
    wf_st s -> Forall isbyte (inp s) -> view s = [(rid, Some total, L - blen (inp s)); (pid, Some psz, 0)] ->
    rsp_rest T true pa rid pid (Some cc) enc true v true s = (tr, s', Ok a) -> inp s' = [] ->
    exists pty pv c c' vs, lookupZ cc (rsp_params T) = Some pty /\ inp s = c ++ c' /\ blen c = psz /\
      sp_ty T pty (pchild pa "parameters") None enc c = Some (pv, []) /\
      sp_until_empty (fun p b => sp_ty T (t_auth_rsp T) p None false b) (pchild pa "authorizationArea") (List.length c') 0 c' = Some vs /\
      Bool.eqb enc (sess_bit attr (mask_encrypt T) vs) = true /\
      shape tr (items_of pv ++ INode (pchild pa "authorizationArea") (list_id (t_auth_rsp T)) :: flat_map items_of vs) /\
      all_valid pv = true /\ forallb all_valid vs = true /\ total = L.
  Proof.
    intros Hne W Hb Vw E I'. destruct (msg_facts T Hsafe) as (_ & _ & _ & _ & _ & _ & _ & _ & Hsr & _).
    unfold session_ok in Hsr. apply andb_prop in Hsr as [Hsr Hsa]. apply andb_prop in Hsr as [Hsr Hsro]. apply andb_prop in Hsr as [Hss Hsn].
    assert (Hlr : lp_ty (t_auth_rsp T) = true).
    { unfold msg_lp in Hlp. apply andb_prop in Hlp as [Hl _]. apply andb_prop in Hl as [_ Hl]. exact Hl. }
    unfold rsp_rest in E.
    destruct (lookupZ cc (rsp_params T)) as [pty|] eqn:Lp; [|discriminate].
    destruct (area_safe T Hsafe cc pty ltac:(right; right; right; exact Lp)) as [Hn Hs].
    pose proof (area_lp T Hlp cc pty ltac:(right; right; right; exact Lp)) as Hl.
    rewrite try_field_strict in E. binv E tr1 s1 pv X1. cbv zeta in E.
    (* the parameter run, restricted to the bytes it consumed *)
    pose proof (P_dec_ty T true (@accounts) (lclosed_closed _ accounts_lclosed true) pty (pchild pa "parameters") None enc _ _ _ _ X1) as Hacc.
    set (c := bytes_of tr1) in *.
    set (sr := mkSt c (store s) (lst s)).
    assert (Es : ext sr (inp s1) = s).
    { unfold ext, sr. cbn [inp store lst]. destruct s as [i0 st0 l0]. cbn [inp store lst] in *. f_equal. symmetry. exact Hacc. }
    destruct (restr_dec_ty T true pty (pchild pa "parameters") None enc) as [_ Hr].
    destruct (Hr sr (inp s1) tr1 s1 (Ok pv) ltac:(rewrite Es; exact X1) ltac:(cbn [sr inp]; unfold c; lia) ltac:(discriminate)) as (s1r & Hs1 & Xr).
    assert (Hbr : Forall isbyte (inp sr)).
    { cbn [sr inp]. rewrite Hacc in Hb. apply Forall_app in Hb as [Hb' _]. exact Hb'. }
    pose proof (P_dec_ty T true (@accounts) (lclosed_closed _ accounts_lclosed true) pty (pchild pa "parameters") None enc _ _ _ _ Xr) as Haccr.
    cbn [sr inp] in Haccr. fold c in Haccr.
    assert (I1r : inp s1r = []).
    { apply (f_equal (@List.length Z)) in Haccr. rewrite app_length in Haccr. destruct (inp s1r); [reflexivity|cbn [List.length] in Haccr; lia]. }
    destruct (params_complete T Hsafe Hlp pty _ enc sr tr1 s1r pv Hs Hn Hl W Hbr Xr) as (v1 & Hv & Sh & AV).
    cbn [sr inp] in Hv. rewrite I1r in Hv.
    destruct (oki_of_r2 _ _ _ _ (params_r2 T Hsafe pty _ enc s Hs Hn W Hb) _ _ _ X1) as [(V1 & W1 & _) B1].
    rewrite Vw in V1. cbn [bump map bump_entry] in V1. fold c in V1.
    (* the parameter region closes *)
    binv E tr2 s2 u2 X2.
    destruct (oki_of_r2 _ _ _ _ (assert_done_done pid psz _ [(rid, Some total, L - blen (inp s) + blen c)] s1 W1 V1
                ltac:(cbn; intros [Hx|[]]; apply Hne; exact Hx)) _ _ _ X2) as (-> & Hpsz & I2 & _ & V2 & W2 & _).
    (* the session list *)
    rewrite try_field_strict in E. binv E tr3 s3 area X3.
    assert (B2 : Forall isbyte (inp s2)) by (rewrite I2; apply B1, Hb).
    destruct (sized_complete T (t_auth_rsp T) attr Hss Hlr Hsa Hsn Hsro rid total (pchild pa "authorizationArea") _ s2 [] _ tr3 s3 area
                W2 B2 V2 ltac:(intros []) X3)
      as (c' & vs & accs & I3 & Lc' & Hvs & Sh3 & AV3 & -> & Hf2 & V3 & W3 & B3).
    destruct (oki_of_r2 _ _ _ _ (sized_r2 T (t_auth_rsp T) attr Hss Hsn Hsro Hsa rid total (pchild pa "authorizationArea") _ s2 [] _
                (conj W2 (conj B2 (conj V2 (fun H : In rid (ids_of []) => H))))) _ _ _ X3) as (_ & _ & _ & _ & Ob3 & Mx3 & _).
    cbn [bump map] in V3.
    pose proof (any_attr_sess attr (mask_encrypt T) vs accs Hf2) as He.
    assert (Ee : is_param_enc (sess_attr_field T) (mask_encrypt T) (Some (listval accs)) = Some (sess_bit attr (mask_encrypt T) vs)) by exact He.
    rewrite Ee in E.
    binv E tr4 s4 u4 X4.
    destruct (Bool.eqb (sess_bit attr (mask_encrypt T) vs) enc) eqn:Eq; [|discriminate]. injection X4 as <- <- <-.
    destruct (rsp_finish_closed rid _ total s3 _ s' a V3 Ob3 Mx3 E) as (-> & ->).
    rewrite I' in I3. rewrite app_nil_r in I3.
    exists pty, v1, c, c', vs. split; [reflexivity|]. split; [rewrite Hacc, I2 in *; rewrite <- I3; reflexivity|].
    split; [lia|]. split; [exact Hv|]. split; [exact Hvs|].
    split; [apply Bool.eqb_prop in Eq; rewrite Eq; apply Bool.eqb_reflx|].
    split; [rewrite !app_nil_r; apply shape_app; [exact Sh|exact Sh3]|]. split; [exact AV|]. split; [exact AV3|].
    assert (Hlen : blen (inp s) = blen c + blen c') by (rewrite Hacc, <- I2, I3; unfold blen; rewrite app_length; lia). lia.
  Qed.

  (** the caller's encryption flag is consistent with the message when it is set only for a response that has a
      session area (the decoder itself checks the flag against the sessions only when there are any) *)
  Definition enc_flag_consistent (pa : path) (enc : bool) (bs : list Z) : Prop :=
    enc = true -> forall v z r, sp_prim (p_rsp_tag T) (pchild pa "tag") bs = Some (v, z, r) -> z = st_sessions T.

  (** C03 for responses: a response that strict decoding completes, leaving nothing, is what the specification reads -
      responseSize is the length of the whole message, parameterSize the length of the parameter area *)
  Theorem rsp_complete pa cc enc s tr s' a : wf_st s -> Forall isbyte (inp s) -> enc_flag_consistent pa enc (inp s) ->
    dec_response T true pa (Some cc) enc s = (tr, s', Ok a) -> inp s' = [] ->
    exists v, sp_response T pa cc enc (inp s) = Some (v, []) /\ shape tr (items_of v) /\ all_valid v = true.
  Proof.
    intros W Hb Henc E I'. destruct (msg_facts T Hsafe) as (_ & Hwt & _ & Hwc & Hws & Hus & _).
    unfold msg_tables_ok in Hok. apply andb_prop in Hok as [_ Hplain].
    unfold dec_response in E.
    set (rid := List.length (store s)) in *.
    destruct (new_sc_spec s W) as (s1 & E1 & I1 & L1 & V1 & W1 & Len1 & G1 & Fr1).
    destruct (new_sc_spec s1 W1) as (s2 & E2 & I2 & L2 & V2 & W2 & Len2 & G2 & Fr2).
    set (pid := List.length (store s1)) in *.
    assert (Hpid : pid = S rid) by (unfold pid, rid; exact Len1).
    assert (Nrid : ~ In rid (lst s1)).
    { rewrite L1. intros Hx. destruct W as [_ AL]. rewrite Forall_forall in AL. specialize (AL _ Hx). unfold rid in AL. lia. }
    assert (Gc2 : get_sc s2 rid = sc_new).
    { destruct Fr2 as [_ Hf]. destruct (Hf rid ltac:(lia) Nrid) as [Hg _]. rewrite Hg. exact G1. }
    set (s3 := mkSt (inp s2) (store s2) [rid]).
    set (L := blen (inp s)).
    assert (I3 : inp s3 = inp s) by (cbn [s3 inp]; rewrite I2, I1; reflexivity).
    assert (C3 : cst rid pid None (L - blen (inp s3)) s3).
    { rewrite I3. unfold L. rewrite Z.sub_diag.
      split; [split; cbn [s3 lst store]; [constructor; [intros []|constructor]|constructor; [lia|constructor]]|].
      split; [rewrite I3; exact Hb|]. split.
      - unfold view. cbn [s3 lst filter]. unfold live. change (get_sc s3 rid) with (get_sc s2 rid). rewrite Gc2. cbn [sc_obs sc_new negb map].
        unfold entry_of. change (get_sc s3 rid) with (get_sc s2 rid). rewrite Gc2. reflexivity.
      - split; [cbn [s3 store]; lia|]. split; [cbn [s3 lst]; intros [Hx|[]]; lia|]. exact G2. }
    destruct (bind_inv _ _ _ _ _ _ _ _ E) as (t1 & x1 & o1 & X1 & R1). rewrite E1 in X1. injection X1 as <- <- <-. destruct R1 as (tr1 & Ea & ->).
    destruct (bind_inv _ _ _ _ _ _ _ _ Ea) as (t2 & x2 & o2 & X2 & R2). rewrite E2 in X2. injection X2 as <- <- <-. destruct R2 as (tr2 & Eb & ->).
    destruct (bind_inv _ _ _ _ _ _ _ _ Eb) as (t3 & x3 & o3 & X3 & R3). injection X3 as <- <- <-. destruct R3 as (tr3 & Ec & ->).
    destruct (bind_inv _ _ _ _ _ _ _ _ Ec) as (t4 & x4 & o4 & X4 & R4). injection X4 as <- <- <-. destruct R4 as (tr4 & Ed & ->).
    fold s3 in Ed. cbv zeta in Ed. clear E Ea Eb Ec. rename Ed into E. cbn [app].
    (* tag *)
    rewrite try_field_strict in E. binv E tr5 s5 tagv X5.
    destruct (prim_step T (p_rsp_tag T) _ rid pid None L s3 tr5 s5 tagv Hwt C3 X5) as (tagz & Sp5 & -> & Vd5 & Sh5 & C5 & Ln5 & _).
    (* responseSize *)
    rewrite try_field_strict in E. binv E tr6 s6 szv X6.
    destruct (prim_step T _ _ rid pid None L s5 tr6 s6 szv Hws C5 X6) as (total & Sp6 & -> & Vd6 & Sh6 & C6 & Ln6 & Htot).
    specialize (Htot Hus). cbn [as_int] in E.
    pose proof C6 as (W6 & B6 & V6 & A6).
    destruct (view_entry s6 rid None _ ltac:(rewrite V6; left; reflexivity)) as (_ & _ & Hin6).
    assert (Hc6 : (rid < List.length (store s6))%nat) by (destruct W6 as [_ AL]; rewrite Forall_forall in AL; apply AL, Hin6).
    binv E tr7 s7 u7 X7.
    destruct (oki_of_r2 _ _ _ _ (set_constraint_done rid (pchild pa "responseSize") total s6 Htot Hc6) _ _ _ X7) as (-> & ->).
    destruct (announced_facts rid (pchild pa "responseSize") total s6 W6 Hc6) as (V7 & W7 & Len7 & G7 & G7' & _).
    set (s7 := announced rid (pchild pa "responseSize") total s6) in *.
    assert (C7 : cst rid pid (Some total) (L - blen (inp s7)) s7).
    { split; [exact W7|]. split; [exact B6|]. split; [rewrite V7, V6; cbn [map set_entry]; rewrite Nat.eqb_refl; reflexivity|].
      destruct A6 as (Al & An & Ag). split; [lia|]. split; [exact An|]. rewrite G7' by lia. exact Ag. }
    assert (I7 : inp s7 = inp s6) by reflexivity.
    (* responseCode *)
    rewrite try_field_strict in E. binv E tr8 s8 rcv X8.
    destruct (prim_step T _ _ rid pid (Some total) L s7 tr8 s8 rcv Hwc C7 X8) as (rc & Sp8 & -> & Vd8 & Sh8 & C8 & Ln8 & _).
    cbn [as_int] in E.
    unfold sp_response. rewrite <- I3, Sp5, Sp6.
    assert (Hbody : total = L - 0 -> split_at (total - (pwidth (p_rsp_tag T) + pwidth (p_size32 T))) (inp s6) = Some (inp s6, [])).
    { intros Htotal. rewrite <- (app_nil_r (inp s6)) at 1. apply split_at_exact. unfold L in Htotal. rewrite <- I3 in Htotal. unfold blen in *. lia. }
    destruct (negb (rc =? rc_success T)) eqn:Erc.
    { (* not SUCCESS: the message ends here *)
      destruct C8 as (W8 & B8 & V8 & _).
      destruct (rsp_finish_open rid _ total _ s8 _ s' a W8 V8 E) as (-> & I8 & Hal).
      rewrite I' in I8. rewrite <- I8 in Hal. rewrite Hbody by (unfold blen in *; cbn [List.length] in *; lia).
      rewrite <- I7, Sp8, Erc, <- I8. eexists. split; [reflexivity|].
      split.
      { cbn [app]. rewrite items_node. apply (sh_node pa (TyN "Response")). cbn [flat_map]. rewrite ?app_nil_r, <- ?app_assoc.
        repeat (apply shape_app; [assumption|]). rewrite ?app_nil_r. exact Sh8. }
      cbn [all_valid forallb]. cbn [all_valid] in Vd5, Vd6, Vd8. rewrite Vd5, Vd6, Vd8. reflexivity. }
    destruct (lookupZ cc (rsp_handles T)) as [hty|] eqn:Lh; [|discriminate].
    destruct (area_safe T Hsafe cc hty ltac:(right; right; left; exact Lh)) as [Hhn Hhs].
    pose proof (area_lp T Hlp cc hty ltac:(right; right; left; exact Lh)) as Hhl.
    assert (Hne : rid <> pid) by lia.
    (* handles *)
    rewrite try_field_strict in E. binv E tr9 s9 hv X9. cbv zeta in E.
    rewrite (dec_ty_plain T true hty _ None enc (lookupZ_forallb plain_ty cc _ hty Lh Hplain)) in X9.
    destruct (ty_step T hty _ rid pid (Some total) L s8 tr9 s9 hv Hhs Hhl C8 X9) as (hsv & Sp9 & Sh9 & AV9 & C9).
    destruct (tagz =? st_sessions T) eqn:Etag.
    - (* parameterSize, parameters, sessions *)
      rewrite try_field_strict in E. binv E tr10 s10 psv X10.
      destruct (prim_step T _ _ rid pid (Some total) L s9 tr10 s10 psv Hws C9 X10) as (psz & Sp10 & -> & Vd10 & Sh10 & C10 & Ln10 & Hpsz).
      specialize (Hpsz Hus). cbn [as_int] in E.
      destruct C10 as (W10 & B10 & V10 & (Al10 & An10 & Ag10)).
      binv E tr11 s11 u11 X11.
      destruct (oki_of_r2 _ _ _ _ (set_constraint_done pid (pchild pa "parameterSize") psz s10 Hpsz Al10) _ _ _ X11) as (-> & ->).
      destruct (announced_facts pid (pchild pa "parameterSize") psz s10 W10 Al10) as (V11 & W11 & Len11 & G11 & G11' & _).
      set (s11 := announced pid (pchild pa "parameterSize") psz s10) in *.
      assert (V11' : view s11 = view s10).
      { rewrite V11, V10. cbn [map set_entry]. replace (Nat.eqb rid pid) with false by (symmetry; apply Nat.eqb_neq; exact Hne). reflexivity. }
      destruct (append_facts pid s11 W11 ltac:(exact An10) ltac:(lia) ltac:(rewrite G11, Ag10; reflexivity)) as (V12 & W12 & _).
      set (s12 := mkSt (inp s11) (store s11) (lst s11 ++ [pid])) in *.
      binv E tr12 s12' u12 X12. injection X12 as <- <- <-. fold s12 in E.
      assert (Vw12 : view s12 = [(rid, Some total, L - blen (inp s12)); (pid, Some psz, 0)]).
      { rewrite V12, V11', V10. unfold entry_of. rewrite G11, Ag10. reflexivity. }
      destruct (rsp_rest_sess pa rid pid cc enc _ total psz L s12 _ s' a Hne W12 B10 Vw12 E I')
        as (pty & pv & c & c' & vs & Lp & I12 & Lc & Spp & Hvs & Heq & Shr & AVp & AVs & Htotal).
      rewrite Hbody by lia. rewrite <- I7, Sp8, Erc, Lp, Sp9, Sp10.
      change (inp s10) with (inp s12). rewrite I12. rewrite (split_at_exact psz c c' Lc). rewrite Spp. fold attr. rewrite Hvs, Heq.
      eexists. split; [reflexivity|].
      split.
      { cbn [app]. rewrite items_node. apply (sh_node pa (TyN "Response")). cbn [flat_map]. rewrite ?app_nil_r, <- ?app_assoc.
        repeat (apply shape_app; [assumption|]). exact Shr. }
      cbn [all_valid forallb]. cbn [all_valid] in Vd5, Vd6, Vd8, Vd10. rewrite Vd5, Vd6, Vd8, AV9, Vd10, AVp, AVs. reflexivity.
    - destruct C9 as (W9 & B9 & V9 & _).
      destruct (rsp_rest_plain pa rid pid cc enc _ total L s9 _ s' a W9 B9 V9 E) as (pty & pv & Lp & Spp & Shp & AVp & Htotal).
      rewrite I' in Spp, Htotal.
      assert (Hef : enc = false).
      { destruct enc; [|reflexivity]. rewrite <- I3 in Henc. specialize (Henc eq_refl _ _ _ Sp5). lia. }
      rewrite Hbody by (unfold blen in *; cbn [List.length] in *; lia).
      rewrite <- I7, Sp8, Erc, Lp, Sp9. rewrite Hef in *. rewrite Spp.
      eexists. split; [reflexivity|].
      split.
      { cbn [app]. rewrite items_node. apply (sh_node pa (TyN "Response")). cbn [flat_map]. rewrite ?app_nil_r, <- ?app_assoc.
        repeat (apply shape_app; [assumption|]). exact Shp. }
      cbn [all_valid forallb]. cbn [all_valid] in Vd5, Vd6, Vd8. rewrite Vd5, Vd6, Vd8, AV9, AVp. reflexivity.
  Qed.
End RspComp.

(** ---- through the byte pump: the Command and Response roots *)
Theorem command_accepted_is_specified T bs evs : msg_safe T = true -> msg_lp T = true -> Forall isbyte bs ->
  decode T true RCommand bs = (evs, OAccepted) -> spec_events T RCommand bs = Some evs.
Proof.
  intros Hs Hl Hb D. destruct (accepted_inv T RCommand bs evs eq_refl D) as (tr & s' & a & E & I' & ->).
  cbn [dec_root] in E. binv E tr1 s1 res X1. injection E as <- <- <-.
  destruct (cmd_complete T Hs Hl root_path (init_st bs) tr1 s1 res (wf_init bs) Hb X1 I') as (v & ci & Hv & Sh & AV & _).
  cbn [init_st inp] in Hv. unfold spec_events, sp_root. rewrite Hv. cbn [forallb flat_map]. rewrite AV. cbn [andb]. rewrite ?app_nil_r.
  rewrite (shape_stamps _ _ _ Sh). rewrite stamp_lenient_valid by (rewrite <- items_of_valid; exact AV). reflexivity.
Qed.

Theorem response_accepted_is_specified T cc enc bs evs : msg_safe T = true -> msg_lp T = true -> msg_tables_ok T = true -> Forall isbyte bs ->
  enc_flag_consistent T root_path enc bs ->
  decode T true (RResponse (Some cc) enc) bs = (evs, OAccepted) -> spec_events T (RResponse (Some cc) enc) bs = Some evs.
Proof.
  intros Hs Hl Hk Hb Hc D. destruct (accepted_inv T (RResponse (Some cc) enc) bs evs eq_refl D) as (tr & s' & a & E & I' & ->).
  cbn [dec_root] in E. binv E tr1 s1 res X1. injection E as <- <- <-.
  destruct (rsp_complete T Hs Hl Hk root_path cc enc (init_st bs) tr1 s1 res (wf_init bs) Hb Hc X1 I') as (v & Hv & Sh & AV).
  cbn [init_st inp] in Hv. unfold spec_events, sp_root. rewrite Hv. cbn [forallb flat_map]. rewrite AV. cbn [andb]. rewrite ?app_nil_r.
  rewrite (shape_stamps _ _ _ Sh). rewrite stamp_lenient_valid by (rewrite <- items_of_valid; exact AV). reflexivity.
Qed.

(** both directions *)
Theorem command_accept_iff_specified T bs evs : msg_safe T = true -> msg_lp T = true -> msg_tables_ok T = true -> Forall isbyte bs ->
  (decode T true RCommand bs = (evs, OAccepted) <-> spec_events T RCommand bs = Some evs).
Proof.
  intros Hs Hl Hk Hb. split; [apply command_accepted_is_specified; assumption|apply root_decodes_as_specified; [exact Hk|reflexivity]].
Qed.

Theorem response_accept_iff_specified T cc enc bs evs : msg_safe T = true -> msg_lp T = true -> msg_tables_ok T = true -> Forall isbyte bs ->
  enc_flag_consistent T root_path enc bs ->
  (decode T true (RResponse (Some cc) enc) bs = (evs, OAccepted) <-> spec_events T (RResponse (Some cc) enc) bs = Some evs).
Proof.
  intros Hs Hl Hk Hb Hc. split; [apply response_accepted_is_specified; assumption|apply root_decodes_as_specified; [exact Hk|reflexivity]].
Qed.
