(** C14: the pretty printer never fails on decoder output - part 3: every decoder function, any outcome, both modes. *)
From Coq Require Import ZArith List String Bool Lia.
From TV Require Import Layout.Types Base.Bytes Model.Monad Model.Constraints Model.Ints Model.Decoder Model.Message Model.Pretty
  Proofs.Sim3 Proofs.Sim4 Proofs.Safe1 Proofs.Warn1 Proofs.PrintSafe1 Proofs.PrintSafe2.
Import ListNotations.
Open Scope string_scope.
Open Scope list_scope.
Open Scope Z_scope.

Section Toks.
  Variable ps : list prim.

  Definition toks (tr : list action) : list tok := map (fun a => tok_of (to_pev ps a)) tr.
  Lemma toks_app a b : toks (a ++ b) = toks a ++ toks b.
  Proof. unfold toks. apply map_app. Qed.

  (** every token of every run satisfies [Q] *)
  Definition AllT {A} (Q : tok -> Prop) (m : M A) : Prop :=
    forall s tr s' o, m s = (tr, s', o) -> Forall Q (toks tr).
  Definition isw (t : tok) : Prop := t = TW.
  Definition silent {A} (m : M A) : Prop := AllT isw m.

  Lemma AllT_weaken {A} (Q Q' : tok -> Prop) (m : M A) : (forall t, Q t -> Q' t) -> AllT Q m -> AllT Q' m.
  Proof. intros H Hm s tr s' o E. eapply Forall_impl; [exact H|apply (Hm _ _ _ _ E)]. Qed.

  Lemma AllT_bind {A B} Q (m : M A) (f : A -> M B) : AllT Q m -> (forall a, AllT Q (f a)) -> AllT Q (bind m f).
  Proof.
    intros Hm Hf s tr s' o E. destruct (bind_inv' _ _ _ _ _ _ _ _ E) as (tr1 & s1 & o1 & E1 & R). pose proof (Hm _ _ _ _ E1) as H1.
    destruct o1 as [a|e| |k|].
    - destruct R as (tr2 & E2 & ->). rewrite toks_app. apply Forall_app. split; [exact H1|apply (Hf a _ _ _ _ E2)].
    - destruct R as (_ & _ & ->). exact H1.
    - destruct R as (_ & _ & ->). exact H1.
    - destruct R as (_ & _ & ->). exact H1.
    - destruct R as (_ & _ & ->). exact H1.
  Qed.

  Lemma AllT_ret {A} Q (a : A) : AllT Q (ret a).
  Proof. intros s tr s' o E. injection E as <- _ _. constructor. Qed.

  Lemma AllT_eq {A} Q (m m' : M A) : meq m m' -> AllT Q m' -> AllT Q m.
  Proof. intros He H s tr s' o E. rewrite He in E. apply (H _ _ _ _ E). Qed.

  Lemma AllT_iter {A} Q (f : A -> M A) : (forall x, AllT Q (f x)) -> forall n x, AllT Q (iter n f x).
  Proof. intros Hf. induction n as [|n IH]; intros x; cbn [iter]; [apply AllT_ret|apply AllT_bind; [apply Hf|apply IH]]. Qed.

  Lemma AllT_repZ {A} Q (f : A -> M A) : (forall x, AllT Q (f x)) -> forall n x, AllT Q (repZ n f x).
  Proof.
    intros Hf n x. destruct n as [|p|p]; cbn [repZ]; [apply AllT_ret| |apply AllT_ret].
    eapply AllT_eq; [apply rep_iter|]. apply AllT_iter, Hf.
  Qed.

  (** ---- the operations that emit no event *)
  Ltac direct := let s := fresh in let tr := fresh in let s' := fresh in let o := fresh in let E := fresh in
    intros s tr s' o E; injection E as <- _ _; repeat constructor.

  Lemma s_get : silent get. Proof. direct. Qed.
  Lemma s_fail A e : silent (@fail A e). Proof. direct. Qed.
  Lemma s_internal A k : silent (@internal_ A k). Proof. direct. Qed.
  Lemma s_fuel A : silent (@fuel_ A). Proof. direct. Qed.
  Lemma s_new_sc : silent new_sc. Proof. direct. Qed.
  Lemma s_set_lst l : silent (set_lst l). Proof. direct. Qed.
  Lemma s_append_lst i : silent (append_lst i). Proof. direct. Qed.
  Lemma s_set_sc i c : silent (set_sc i c). Proof. direct. Qed.
  Lemma s_warn e : silent (emit (Wn e)). Proof. direct. Qed.

  Lemma toks_reads bs : Forall isw (toks (map Rd bs)).
  Proof. induction bs as [|b r IH]; [constructor|]. constructor; [reflexivity|exact IH]. Qed.

  Lemma s_read1 : silent read1.
  Proof. intros s tr s' o E. unfold read1 in E. destruct (inp s); injection E as <- _ _; repeat constructor. Qed.
  Lemma s_readn n : silent (readn n).
  Proof.
    induction n as [|n IH]; cbn [readn]; [apply AllT_ret|]. apply AllT_bind; [apply s_read1|]. intros b.
    apply AllT_bind; [exact IH|]. intros bs. apply AllT_ret.
  Qed.
  Lemma s_consume n : silent (consume n).
  Proof. intros s tr s' o E. unfold consume in E. destruct (take_bytes (inp s) n) as [[t rest] dn]. injection E as <- _ _. apply toks_reads. Qed.
  Lemma s_purge : silent purge.
  Proof. unfold purge. apply AllT_bind; [apply s_get|]. intros s. apply s_set_lst. Qed.
  Lemma s_bump_all ids n : silent (bump_all ids n).
  Proof.
    induction ids as [|i r IH]; cbn [bump_all]; [apply AllT_ret|]. apply AllT_bind; [apply s_get|]. intros s.
    apply AllT_bind; [apply s_set_sc|]. intros _. exact IH.
  Qed.
  Lemma s_retire_all ids : silent (retire_all ids).
  Proof.
    induction ids as [|i r IH]; cbn [retire_all]; [apply AllT_ret|]. apply AllT_bind; [apply s_get|]. intros s.
    apply AllT_bind; [apply s_set_sc|]. intros _. exact IH.
  Qed.
  Lemma s_bump_others ids self n : silent (bump_others ids self n).
  Proof.
    induction ids as [|i r IH]; cbn [bump_others]; [apply AllT_ret|]. apply AllT_bind; [apply s_get|]. intros s.
    apply AllT_bind; [destruct (_ || _); [apply AllT_ret|apply s_set_sc]|]. intros _. exact IH.
  Qed.
  Lemma s_bytes_parsed pa n : silent (bytes_parsed pa n).
  Proof.
    unfold bytes_parsed. apply AllT_bind; [apply s_purge|]. intros _. apply AllT_bind; [apply s_get|]. intros s.
    destruct (find_violated _ _ _ _) as [[[[before i] by_] after]|]; [|apply s_bump_all].
    apply AllT_bind; [apply s_bump_all|]. intros _. apply AllT_bind; [apply s_retire_all|]. intros _.
    apply AllT_bind; [apply s_set_lst|]. intros _. apply AllT_bind; [apply s_set_sc|]. intros _.
    apply AllT_bind; [apply s_consume|]. intros _. apply s_fail.
  Qed.
  Lemma s_set_constraint abort i pa n : silent (set_constraint abort i pa n).
  Proof.
    unfold set_constraint. destruct (n <? 0); [apply s_internal|]. apply AllT_bind; [apply s_get|]. intros s.
    apply AllT_bind; [apply s_set_sc|]. intros _. apply AllT_bind; [apply s_get|]. intros s2.
    destruct (anticipate _ _ _ _) as [[ci by_]|]; [|apply AllT_ret]. destruct abort; [apply s_fail|apply s_warn].
  Qed.
  Lemma s_assert_done abort i : silent (assert_done abort i).
  Proof.
    unfold assert_done. apply AllT_bind; [apply s_get|]. intros s. destruct (sc_max _) as [mx|]; [|apply s_internal].
    destruct (sc_obs _); [apply AllT_ret|]. apply AllT_bind; [apply s_set_sc|]. intros _.
    destruct (_ =? mx); [apply AllT_ret|]. destruct abort; [apply s_fail|].
    apply AllT_bind; [apply s_warn|]. intros _. apply AllT_bind; [apply s_bump_others|]. intros _. apply s_consume.
  Qed.
  Lemma s_list_assert_done : silent list_assert_done.
  Proof. unfold list_assert_done. apply AllT_bind; [apply s_get|]. intros s. destruct (forallb _ _); [apply AllT_ret|apply s_internal]. Qed.

  (** ---- the judgement on computations *)
  Definition GM {A} (Sv Sx : scope) (m : M A) : Prop := forall s tr s' o, m s = (tr, s', o) -> G Sv Sx (toks tr).

  Lemma GM_weaken {A} Av Ax Cv Cx (m : M A) : sub Av Cv -> sub Ax Cx -> GM Av Ax m -> GM Cv Cx m.
  Proof. intros H1 H2 H s tr s' o E. apply (G_weaken _ _ _ _ _ H1 H2 (H _ _ _ _ E)). Qed.

  Lemma GM_silent {A} Sv Sx (m : M A) : silent m -> GM Sv Sx m.
  Proof. intros H s tr s' o E. apply G_warnings, (H _ _ _ _ E). Qed.

  Lemma GM_eq {A} Sv Sx (m m' : M A) : meq m m' -> GM Sv Sx m' -> GM Sv Sx m.
  Proof. intros He H s tr s' o E. rewrite He in E. apply (H _ _ _ _ E). Qed.

  Lemma GM_bind {A B} Av Ax Bv Bx Cv Cx (m : M A) (f : A -> M B) :
    sub Av Cv -> sub Bv Cv -> sub Ax Cx -> sub Bx Cx -> sep Ax Bv -> GM Av Ax m -> (forall a, GM Bv Bx (f a)) -> GM Cv Cx (bind m f).
  Proof.
    intros HA HB HAx HBx Hs Hm Hf s tr s' o E. destruct (bind_inv' _ _ _ _ _ _ _ _ E) as (tr1 & s1 & o1 & E1 & R).
    pose proof (Hm _ _ _ _ E1) as H1.
    destruct o1 as [a|e| |k|].
    - destruct R as (tr2 & E2 & ->). rewrite toks_app. apply (G_seq Av Ax Bv Bx Cv Cx _ _ HA HB HAx HBx Hs H1 (Hf a _ _ _ _ E2)).
    - destruct R as (_ & _ & ->). apply (G_weaken _ _ _ _ _ HA HAx H1).
    - destruct R as (_ & _ & ->). apply (G_weaken _ _ _ _ _ HA HAx H1).
    - destruct R as (_ & _ & ->). apply (G_weaken _ _ _ _ _ HA HAx H1).
    - destruct R as (_ & _ & ->). apply (G_weaken _ _ _ _ _ HA HAx H1).
  Qed.

  (** a silent step before / after *)
  Lemma GM_pre {A B} Cv Cx (m : M A) (f : A -> M B) : silent m -> (forall a, GM Cv Cx (f a)) -> GM Cv Cx (bind m f).
  Proof.
    intros Hm Hf. apply (GM_bind none none Cv Cx Cv Cx); [apply sub_none|apply sub_refl|apply sub_none|apply sub_refl|apply sep_none|apply GM_silent, Hm|exact Hf].
  Qed.
  Lemma GM_post {A B} Cv Cx (m : M A) (f : A -> M B) : GM Cv Cx m -> (forall a, silent (f a)) -> GM Cv Cx (bind m f).
  Proof.
    intros Hm Hf. apply (GM_bind Cv Cx none none Cv Cx); [apply sub_refl|apply sub_none|apply sub_refl|apply sub_none|intros pl q _ []|exact Hm|].
    intros a. apply GM_silent, Hf.
  Qed.
  Lemma GM_ret {A} Sv Sx (a : A) : GM Sv Sx (ret a).
  Proof. apply GM_silent, AllT_ret. Qed.

  Lemma GM_catch {A} Cv Cx abort ids (m h : M A) : GM Cv Cx m -> silent h -> GM Cv Cx (catch_exceeded abort ids m h).
  Proof.
    intros Hm Hh s tr s' o E. unfold catch_exceeded in E. destruct (m s) as [[tr1 s1] o1] eqn:E1. pose proof (Hm _ _ _ _ E1) as H1.
    destruct o1 as [a|e| |k|]; try (injection E as <- _ _; exact H1).
    destruct e as [ |c v b| | | | | ]; try (injection E as <- _ _; exact H1).
    destruct (abort || _); [injection E as <- _ _; exact H1|].
    destruct (h s1) as [[tr2 s2] o2] eqn:E2. injection E as <- _ _.
    rewrite toks_app. apply (G_seq Cv Cx none none Cv Cx); [apply sub_refl|apply sub_none|apply sub_refl|apply sub_none|intros pl q _ []|exact H1|].
    apply G_warnings. constructor; [reflexivity|apply (Hh _ _ _ _ E2)].
  Qed.

  (** ---- events *)
  Definition byte_list (t : tyid) : bool := match t with TyList en => String.eqb en "BYTE" | _ => false end.

  Lemma GM_sev pa t : byte_list t = false -> GM (only pa) none (emit (sev pa t)).
  Proof.
    intros Hb s tr s' o E. injection E as <- _ _. unfold toks, sev. cbn [map to_pev ety evalue epath].
    destruct t as [n|n|en]; cbn [tok_of]; try (apply (G_one (TS pa) pa eq_refl); discriminate).
    cbn [byte_list] in Hb. rewrite Hb. cbn [tok_of]. apply (G_one (TN pa) pa eq_refl). discriminate.
  Qed.

  Lemma GM_prim abort p pa : GM (only pa) none (dec_prim abort p pa).
  Proof.
    unfold dec_prim. apply GM_pre; [apply s_bytes_parsed|]. intros _. apply GM_pre; [apply s_readn|]. intros bs. cbv zeta.
    assert (Hev : GM (only pa) none (emit (Ev (mkEvent pa (TyN (pname p)) (Some (from_bytes (psigned p) bs)))))).
    { intros s tr s' o E. injection E as <- _ _. unfold toks. cbn [map to_pev ety evalue epath].
      destruct (find_prim ps (pname p)); cbn [tok_of]; [apply (G_one (TP pa) pa eq_refl)|apply (G_one (TS pa) pa eq_refl)]; discriminate. }
    destruct (valid p _).
    - apply GM_post; [exact Hev|]. intros _. apply AllT_ret.
    - destruct abort; [apply GM_silent, s_fail|]. apply GM_post; [exact Hev|]. intros _.
      apply AllT_bind; [apply s_warn|]. intros _. apply AllT_ret.
  Qed.

  (** the elements of a byte buffer *)
  Lemma prim_buffer_elem abort p pa n i : find_prim ps (pname p) <> None ->
    AllT (buffer_elem (pa ++ [mkNode n None])) (dec_prim abort p (pa ++ [mkNode n (Some i)])).
  Proof.
    intros Hf. assert (W : forall t, isw t -> buffer_elem (pa ++ [mkNode n None]) t) by (intros t ->; left; reflexivity).
    unfold dec_prim. apply AllT_bind; [apply (AllT_weaken _ _ _ W), s_bytes_parsed|]. intros _.
    apply AllT_bind; [apply (AllT_weaken _ _ _ W), s_readn|]. intros bs. cbv zeta.
    assert (Hev : AllT (buffer_elem (pa ++ [mkNode n None])) (emit (Ev (mkEvent (pa ++ [mkNode n (Some i)]) (TyN (pname p)) (Some (from_bytes (psigned p) bs)))))).
    { intros s tr s' o E. injection E as <- _ _. unfold toks. cbn [map to_pev ety evalue epath].
      destruct (find_prim ps (pname p)); [|contradiction]. cbn [tok_of]. constructor; [|constructor].
      right. exists pa, n, i. split; reflexivity. }
    destruct (valid p _).
    - apply AllT_bind; [exact Hev|]. intros _. apply AllT_ret.
    - destruct abort; [apply (AllT_weaken _ _ _ W), s_fail|]. apply AllT_bind; [exact Hev|]. intros _.
      apply AllT_bind; [apply (AllT_weaken _ _ _ W), s_warn|]. intros _. apply AllT_ret.
  Qed.
End Toks.
