(** C14: the pretty printer never fails on decoder output - part 5: commands, responses, streams, the byte pump. *)
From Coq Require Import ZArith List String Bool Lia.
From TV Require Import Layout.Types Base.Bytes Model.Monad Model.Constraints Model.Ints Model.Decoder Model.Message Model.Pump Model.Pretty
  Proofs.Sim3 Proofs.Sim4 Proofs.Sim11 Proofs.Safe1 Proofs.Safe3 Proofs.Warn1 Proofs.ObjEv Proofs.PrettyProofs
  Proofs.PrintSafe1 Proofs.PrintSafe2 Proofs.PrintSafe3 Proofs.PrintSafe4.
Import ListNotations.
Open Scope string_scope.
Open Scope list_scope.
Open Scope Z_scope.

(** the table condition for messages *)
Definition msg_pok (T : tables) (ps : list prim) : bool :=
  forallb (fun kt => pok_ty ps (snd kt)) (cmd_handles T ++ cmd_params T ++ rsp_handles T ++ rsp_params T) &&
  pok_ty ps (t_auth_cmd T) && pok_ty ps (t_auth_rsp T) &&
  negb (String.eqb (ty_name (t_auth_cmd T)) "BYTE") && negb (String.eqb (ty_name (t_auth_rsp T)) "BYTE") && enc_ok T ps.

Section Msg.
  Variable T : tables.
  Variable ps : list prim.
  Variable abort : bool.
  Hypothesis Hok : msg_pok T ps = true.

  Lemma Henc : enc_ok T ps = true.
  Proof. unfold msg_pok in Hok. apply andb_prop in Hok as [_ H]. exact H. Qed.
  Lemma Hauth_c : pok_ty ps (t_auth_cmd T) = true /\ String.eqb (ty_name (t_auth_cmd T)) "BYTE" = false.
  Proof.
    unfold msg_pok in Hok. apply andb_prop in Hok as [H _]. apply andb_prop in H as [H _]. apply andb_prop in H as [H Hn].
    apply andb_prop in H as [H _]. apply andb_prop in H as [_ H]. split; [exact H|]. destruct (String.eqb _ _); [discriminate|reflexivity].
  Qed.
  Lemma Hauth_r : pok_ty ps (t_auth_rsp T) = true /\ String.eqb (ty_name (t_auth_rsp T)) "BYTE" = false.
  Proof.
    unfold msg_pok in Hok. apply andb_prop in Hok as [H _]. apply andb_prop in H as [H Hn]. apply andb_prop in H as [H _].
    apply andb_prop in H as [_ H]. split; [exact H|]. destruct (String.eqb _ _); [discriminate|reflexivity].
  Qed.
  Lemma area_pok cc t : lookupZ cc (cmd_handles T) = Some t \/ lookupZ cc (cmd_params T) = Some t \/
                        lookupZ cc (rsp_handles T) = Some t \/ lookupZ cc (rsp_params T) = Some t -> pok_ty ps t = true.
  Proof.
    intros H. unfold msg_pok in Hok. apply andb_prop in Hok as [Hl _]. apply andb_prop in Hl as [Hl _]. apply andb_prop in Hl as [Hl _].
    apply andb_prop in Hl as [Hl _]. apply andb_prop in Hl as [Hl _]. rewrite forallb_forall in Hl.
    assert (Hin : exists c', In (c', t) (cmd_handles T ++ cmd_params T ++ rsp_handles T ++ rsp_params T)).
    { destruct H as [H|[H|[H|H]]]; destruct (lookupZ_in _ _ _ H) as (c' & Hi & _); exists c'; rewrite !in_app_iff; tauto. }
    destruct Hin as (c' & Hin). apply (Hl _ Hin).
  Qed.

  Definition GT t := proj1 (printsafe_all T ps abort Henc) t.

  (** ---- the size-governed session list *)
  Definition sguard (cid : nat) (mx : Z) (_ : Z * list (option value)) : M bool :=
    bind get (fun s => ret (sc_already (get_sc s cid) <? mx)).

  Lemma sized_step_eq pa n body cid mx x :
    meq (bind get (fun s => if sc_already (get_sc s cid) <? mx
                            then bind (body (pindex (pchild pa n) (fst x))) (fun v => ret (fst x + 1, v :: snd x)) else ret x))
        (lstep pa n body (sguard cid mx) x).
  Proof.
    intros s. unfold lstep, sguard, bind, get, ret. cbn [app]. destruct (_ <? mx); [|reflexivity].
    destruct (body _ _) as [[tr s1] o]. destruct o; reflexivity.
  Qed.

  Lemma GM_sized_array t pa n cid : pok_ty ps t = true -> String.eqb (ty_name t) "BYTE" = false ->
    GM ps (Field pa n) (Field pa n) (dec_sized_array abort (list_id t) (pchild pa n) cid (fun p => dec_ty T abort t p None false)).
  Proof.
    intros Hp Hb. unfold dec_sized_array.
    apply (GM_bind ps (only (pchild pa n)) none (ElemsFrom pa n 0) (BelowElemsFrom pa n 0)).
    - intros q ->. exists None, []. reflexivity.
    - apply ElemsFrom_Field.
    - apply sub_none.
    - apply BelowElemsFrom_Field.
    - apply sep_none.
    - apply GM_sev. exact Hb.
    - intros _. apply GM_pre; [apply s_get|]. intros s0. destruct (sc_max _) as [mx|]; [|apply GM_silent, s_internal].
      apply GM_catch; [|apply AllT_ret]. apply GM_post.
      + destruct (mx - _) as [|p|p]; cbn [repZ]; [apply GM_ret| |apply GM_ret].
        eapply GM_eq; [apply (rep_cong _ _ (sized_step_eq pa n (fun p0 => dec_ty T abort t p0 None false) cid mx))|].
        eapply GM_eq; [apply rep_iter|]. apply GM_elems; [intros j; apply (GT t Hp)|].
        intros x. unfold sguard. apply AllT_bind; [apply s_get|]. intros s. apply AllT_ret.
      + intros r. apply AllT_bind; [apply s_get|]. intros s. destruct (_ <? mx); [apply s_fuel|].
        apply AllT_bind; [apply s_assert_done|]. intros _. apply AllT_ret.
  Qed.

  (** ---- one field of a message *)
  Lemma GM_try_field {A R} pa n ns ids (m : M A) (abandon : M R) (k : A -> M R) Av Ax : ~ In n ns ->
    sub Av (Field pa n) -> sub Ax (Field pa n) -> GM ps Av Ax m -> silent ps abandon ->
    (forall a, GM ps (Fields pa ns) (Fields pa ns) (k a)) ->
    GM ps (Fields pa (n :: ns)) (Fields pa (n :: ns)) (try_field abort ids m abandon k).
  Proof.
    intros Hn HA HAx Hm Hab Hk. unfold try_field.
    apply (field_then_rest ps pa n ns _ _ Av Ax Hn HA HAx).
    - apply GM_catch; [|apply AllT_ret]. apply GM_post; [exact Hm|]. intros a. apply AllT_ret.
    - intros [a|]; [apply Hk|apply GM_silent, Hab].
  Qed.

  Lemma prim_field pa n p : GM ps (only (pchild pa n)) none (dec_prim abort p (pchild pa n)).
  Proof. apply GM_prim. Qed.
  Lemma only_child_Field pa n : sub (only (pchild pa n)) (Field pa n).
  Proof. intros q ->. exists None, []. reflexivity. Qed.

  Ltac notin := let H := fresh in intros H; cbn [In] in H; repeat (destruct H as [H|H]; [discriminate|]); exact H.
  Ltac tf_prim := eapply GM_try_field; [notin|apply only_child_Field|apply sub_none|apply prim_field|apply AllT_ret|].
  Ltac tf_area H := eapply GM_try_field; [notin|apply Ext_child_Field|apply (sub_trans _ _ _ (Below_Ext _) (Ext_child_Field _ _))|apply (GT _ H)|apply AllT_ret|].
  Ltac tf_sized H := eapply GM_try_field; [notin|apply sub_refl|apply sub_refl|apply (GM_sized_array _ _ _ _ (proj1 H) (proj2 H))|apply AllT_ret|].

  Lemma weaken_fields {A} pa ns ms (m : M A) : (forall k, In k ns -> In k ms) ->
    GM ps (Fields pa ns) (Fields pa ns) m -> GM ps (Fields pa ms) (Fields pa ms) m.
  Proof. intros H. apply GM_weaken; apply Fields_mono, H. Qed.

  Lemma GM_cmd_params pa cid aid ccz v area enc :
    GM ps (Fields pa ["parameters"]) (Fields pa ["parameters"]) (cmd_params_step T abort pa cid aid ccz v area enc).
  Proof.
    unfold cmd_params_step. destruct (lookupZ ccz (cmd_params T)) as [pty|] eqn:Lp; [|apply GM_silent, s_fail].
    apply (GM_try_field pa "parameters" [] _ _ _ _ (Ext (pchild pa "parameters")) (Below (pchild pa "parameters"))); [notin|apply Ext_child_Field| | |apply AllT_ret|].
    - apply (sub_trans _ _ _ (Below_Ext _) (Ext_child_Field pa "parameters")).
    - apply (GT pty (area_pok ccz pty (or_intror (or_introl Lp)))).
    - intros pv. apply GM_silent. apply AllT_bind; [apply s_assert_done|]. intros _. apply AllT_ret.
  Qed.

  Theorem GM_command pa : GM ps (Ext pa) (Below pa) (dec_command T abort pa).
  Proof.
    unfold dec_command. apply GM_pre; [apply s_new_sc|]. intros cid. apply GM_pre; [apply s_new_sc|]. intros aid.
    apply GM_pre; [apply s_set_lst|]. intros _.
    apply (GM_bind ps (only pa) none (Below pa) (Below pa)); [apply only_Ext|apply Below_Ext|apply sub_none|apply sub_refl|apply sep_none|apply GM_sev; reflexivity|].
    intros _. cbv zeta.
    apply (GM_weaken ps _ _ _ _ _ (Fields_Below pa ["tag"; "commandSize"; "commandCode"; "handles"; "authSize"; "authorizationArea"; "parameters"])
                                  (Fields_Below pa ["tag"; "commandSize"; "commandCode"; "handles"; "authSize"; "authorizationArea"; "parameters"])).
    tf_prim.
    intros tagv.
    tf_prim.
    intros szv. apply GM_pre; [apply s_set_constraint|]. intros _.
    tf_prim.
    intros ccv. destruct (lookupZ _ (cmd_handles T)) as [hty|] eqn:Lh; [|apply GM_silent, s_fail].
    tf_area (area_pok _ hty (or_introl Lh)).
    intros hv. destruct (match as_int tagv with Some z => z =? st_sessions T | None => false end).
    - tf_prim.
      intros asv. apply GM_pre; [apply s_set_constraint|]. intros _. apply GM_pre; [apply s_append_lst|]. intros _.
      tf_sized Hauth_c.
      intros area. destruct (is_param_enc _ _ _) as [enc|]; [apply GM_cmd_params|apply GM_silent, s_internal].
    - apply (weaken_fields pa ["parameters"]); [intros k [<-|[]]; cbn [In]; tauto|]. apply GM_cmd_params.
  Qed.

  Lemma s_rsp_finish rid v : silent ps (rsp_finish abort rid v).
  Proof.
    unfold rsp_finish. apply AllT_bind; [apply s_assert_done|]. intros _. apply AllT_bind; [apply s_list_assert_done|]. intros _. apply AllT_ret.
  Qed.
  Lemma s_rsp_no_cc A pa n cc : silent ps (@rsp_no_cc T A pa n cc).
  Proof. unfold rsp_no_cc. destruct cc; apply s_fail. Qed.

  Lemma GM_rsp_rest pa rid pid cc enc sessions v have :
    GM ps (Fields pa ["parameters"; "authorizationArea"]) (Fields pa ["parameters"; "authorizationArea"])
       (rsp_rest T abort pa rid pid cc enc sessions v have).
  Proof.
    unfold rsp_rest. destruct (match cc with Some c => lookupZ c (rsp_params T) | None => None end) as [pty|] eqn:Lp; [|apply GM_silent, s_rsp_no_cc].
    assert (Hpty : pok_ty ps pty = true).
    { destruct cc as [c|]; [|discriminate]. apply (area_pok c pty). right. right. right. exact Lp. }
    tf_area Hpty.
    intros pv. cbv zeta. apply GM_pre; [destruct have; [apply s_assert_done|apply AllT_ret]|]. intros _.
    destruct sessions; [|apply GM_silent, s_rsp_finish].
    tf_sized Hauth_r.
    intros area. apply GM_silent. destruct (is_param_enc _ _ _) as [e|]; [|apply s_internal].
    apply AllT_bind; [|intros _; apply s_rsp_finish].
    destruct (Bool.eqb e enc); [apply AllT_ret|]. destruct abort; [apply s_fail|apply s_warn].
  Qed.

  Theorem GM_response pa cc enc : GM ps (Ext pa) (Below pa) (dec_response T abort pa cc enc).
  Proof.
    unfold dec_response. apply GM_pre; [apply s_new_sc|]. intros rid. apply GM_pre; [apply s_new_sc|]. intros pid.
    apply GM_pre; [apply s_set_lst|]. intros _.
    apply (GM_bind ps (only pa) none (Below pa) (Below pa)); [apply only_Ext|apply Below_Ext|apply sub_none|apply sub_refl|apply sep_none|apply GM_sev; reflexivity|].
    intros _. cbv zeta.
    apply (GM_weaken ps _ _ _ _ _ (Fields_Below pa ["tag"; "responseSize"; "responseCode"; "handles"; "parameterSize"; "parameters"; "authorizationArea"])
                                  (Fields_Below pa ["tag"; "responseSize"; "responseCode"; "handles"; "parameterSize"; "parameters"; "authorizationArea"])).
    tf_prim.
    intros tagv.
    tf_prim.
    intros szv. apply GM_pre; [apply s_set_constraint|]. intros _.
    tf_prim.
    intros rcv. destruct (match as_int rcv with Some z => negb (z =? rc_success T) | None => true end); [apply GM_silent, s_rsp_finish|].
    destruct (match cc with Some c => lookupZ c (rsp_handles T) | None => None end) as [hty|] eqn:Lh; [|apply GM_silent, s_rsp_no_cc].
    assert (Hhty : pok_ty ps hty = true).
    { destruct cc as [c|]; [|discriminate]. apply (area_pok c hty). right. right. left. exact Lh. }
    tf_area Hhty.
    intros hv. destruct (match as_int tagv with Some z => z =? st_sessions T | None => false end).
    - tf_prim.
      intros psv. apply GM_pre; [apply s_set_constraint|]. intros _. apply GM_pre; [apply s_append_lst|]. intros _. apply GM_rsp_rest.
    - apply (weaken_fields pa ["parameters"; "authorizationArea"]); [intros k Hk; cbn [In] in *; tauto|]. apply GM_rsp_rest.
  Qed.
End Msg.
