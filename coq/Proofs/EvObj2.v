(** C11: [events_to_obj] applied to the events of a decoded object gives the object back (types, commands, responses). *)
From Coq Require Import ZArith List String Bool Lia.
From TV Require Import Layout.Types Base.Bytes Model.Monad Model.Constraints Model.Ints Model.Decoder Model.Message Model.Pump Model.Object
  Proofs.Safe1 Proofs.Safe3 Proofs.ObjEv Proofs.EvObj Proofs.EvDict.
Import ListNotations.
Open Scope string_scope.
Open Scope list_scope.
Open Scope Z_scope.

Lemma placed_ext (g h : path -> list event) final : (forall pa, g pa = h pa) -> placed h final -> placed g final.
Proof. intros He Hp nd. destruct (Hp nd) as (init & inner & H1 & H2). exists init, inner. rewrite He. split; assumption. Qed.

(** the table condition of the back conversion *)
Definition msg_plain (T : tables) : bool :=
  forallb (fun kt => plain_ok T (snd kt)) (cmd_handles T ++ cmd_params T ++ rsp_handles T ++ rsp_params T) &&
  plain_ok T (t_auth_cmd T) && plain_ok T (t_auth_rsp T).

Section Back.
  Variable T : tables.
  Hypothesis Hnm : msg_named T = true.
  Hypothesis Hpl : msg_plain T = true.

  Lemma enc_named : named_ty (t_enc_param T) = true.
  Proof. unfold msg_named in Hnm. apply andb_prop in Hnm as [_ Hl]. exact Hl. Qed.

  (** ---- a structure type *)
  Theorem type_back t v : named_ty t = true -> plain_ok T t = true -> wsh t v -> events_to_obj T (RType t) (oe_ty T t v root_path) = Some v.
  Proof.
    intros Hn Hp Hw. unfold events_to_obj. rewrite events_to_dict_build.
    change root_path with [mkNode "" None].
    rewrite (placed_blk (oe_ty T t v) (tree_of v) "" [] (proj1 (dict_all T) t Hn v Hw) eq_refl).
    cbn [app lookupS String.eqb]. apply (proj1 (to_obj_all T) t Hn Hp v Hw).
  Qed.

  (** ---- a parameter area with the opaque first parameter *)
  Lemma prim_list_placed ep l : all_of (wsh (TPrim ep)) l -> forall x, In x l -> placed (oe_leaf x) (tree_of x).
  Proof. intros Hl x Hx. destruct (all_of_in _ _ Hl _ Hx) as (z & ->). apply placed_leaf. Qed.

  Lemma prim_list_back ep l : all_of (wsh (TPrim ep)) l -> to_list leaf_obj (tree_of (VList_ l)) = Some (VList_ l).
  Proof. intros Hl. apply to_list_of. intros x Hx. destruct (all_of_in _ _ Hl _ Hx) as (z & ->). reflexivity. Qed.

  Lemma wshp_placed pty v : named_ty pty = true -> wshp T pty v -> placed (oe_ty T pty v) (tree_of v).
  Proof.
    intros Hn [Hw|He]; [apply (proj1 (dict_all T) pty Hn v Hw)|].
    unfold enc_shape in He. destruct pty as [|name isp [|n t r| |]| | |]; try contradiction.
    pose proof enc_named as Hen. destruct (t_enc_param T) as [| |ename eszf ebuf eszp [ep| | | |]| |] eqn:Et; try contradiction.
    destruct He as (z & l & rest & -> & Hl & Hr).
    cbn [named_ty] in Hen. apply andb_prop in Hen as [Hne _].
    assert (Hsb : String.eqb eszf ebuf = false) by (destruct (String.eqb eszf ebuf); [discriminate|reflexivity]).
    assert (Hbs : String.eqb ebuf eszf = false) by (rewrite String.eqb_sym; exact Hsb).
    cbn [named_ty named_fields field_names nodupb] in Hn. apply andb_prop in Hn as [Hd Hn]. apply andb_prop in Hn as [_ Hnr]. apply andb_prop in Hd as [Hd1 Hd2].
    assert (Hni : ~ In n (field_names r)) by (apply nodupb_notin; destruct (existsb _ _); [discriminate|reflexivity]).
    apply nodupb_NoDup in Hd2.
    set (x0 := VStruct_ (TyN ename) [(eszf, Some (VInt_ (pname eszp) z)); (ebuf, Some (VList_ l))]).
    set (V := (n, Some x0) :: rest).
    destruct (natural_all T) as (NT & NF & NA & _).
    apply (placed_ext _ (fun pa => ev_node pa (TyEnc name) :: (oe_enc_param T x0 (pchild pa n) ++ oe_fields T r V pa))).
    { intros pa. change (oe_ty T (TStruct name isp (FPlain n t r)) (VStruct_ (TyEnc name) V) pa)
        with (ev_node pa (TyEnc name) :: (match lookupS n V with Some (Some x) => oe_enc_param T x (pchild pa n) | _ => [ev_node (pchild pa n) (ty_id (t_enc_param T))] end) ++ oe_fields T r V pa).
      unfold V. cbn [lookupS]. rewrite String.eqb_refl. reflexivity. }
    apply placed_node; [reflexivity|apply nat0_app; [apply nat0_child, nat1_enc|apply NF]|].
    assert (Hx0 : placed (oe_enc_param T x0) (tree_of x0)).
    { apply (placed_ext _ (fun pa => ev_node pa (TyN ename) :: oe_leaf (VInt_ (pname eszp) z) (pchild pa eszf) ++ oe_list (TyList (pname ep)) oe_leaf (pchild pa ebuf) (VList_ l))).
      { intros pa. unfold oe_enc_param, x0. rewrite Et. cbn [lookupS]. rewrite String.eqb_refl, Hbs, String.eqb_refl. reflexivity. }
      apply placed_node; [reflexivity| |].
      - apply nat0_app; [apply nat0_child, nat1_leaf|apply (nat0_child (fun p => oe_list _ _ p _)), nat1_list; intros x; apply nat1_leaf].
      - apply (field_step eszf (oe_leaf (VInt_ (pname eszp) z)) (TLeaf (pname eszp) z) (fun pa => oe_list (TyList (pname ep)) oe_leaf (pchild pa ebuf) (VList_ l)) []);
          [apply placed_leaf|reflexivity|].
        change (pchild [] ebuf) with [mkNode ebuf None]. cbn [app].
        rewrite (list_blk (TyList (pname ep)) oe_leaf ebuf l); [reflexivity|reflexivity|apply (prim_list_placed ep l Hl)|cbn [lookupS]; rewrite Hbs; reflexivity]. }
    apply (field_step n (oe_enc_param T x0) (tree_of x0) (oe_fields T r V) []); [exact Hx0|reflexivity|].
    rewrite (proj1 (proj2 (dict_all T)) r Hnr Hd2 rest Hr V).
    - reflexivity.
    - intros k o Hin. unfold V. cbn [lookupS].
      assert (Hk : String.eqb k n = false).
      { apply String.eqb_neq. intros ->. apply Hni. rewrite <- (wsh_fields_names _ _ Hr). apply (in_map fst) in Hin. exact Hin. }
      rewrite Hk. apply lookup_nodup; [rewrite (wsh_fields_names _ _ Hr); exact Hd2|exact Hin].
    - intros k Hin. cbn [app lookupS]. replace (String.eqb k n) with false; [reflexivity|].
      symmetry. apply String.eqb_neq. intros ->. contradiction.
  Qed.

  Lemma wshp_back pty v : named_ty pty = true -> plain_ok T pty = true -> wshp T pty v -> to_obj_ty T pty (tree_of v) = Some v.
  Proof.
    intros Hn Hp [Hw|He]; [apply (proj1 (to_obj_all T) pty Hn Hp v Hw)|].
    unfold enc_shape in He. destruct pty as [|name isp [|n t r| |]| | |]; try contradiction.
    pose proof enc_named as Hen. destruct (t_enc_param T) as [| |ename eszf ebuf eszp [ep| | | |]| |] eqn:Et; try contradiction.
    destruct He as (z & l & rest & -> & Hl & Hr).
    cbn [named_ty] in Hen. apply andb_prop in Hen as [Hne _].
    assert (Hsb : String.eqb eszf ebuf = false) by (destruct (String.eqb eszf ebuf); [discriminate|reflexivity]).
    assert (Hbs : String.eqb ebuf eszf = false) by (rewrite String.eqb_sym; exact Hsb).
    cbn [named_ty named_fields field_names nodupb] in Hn. apply andb_prop in Hn as [Hd Hn]. apply andb_prop in Hn as [_ Hnr]. apply andb_prop in Hd as [Hd1 Hd2].
    apply nodupb_NoDup in Hd2.
    cbn [plain_ok plain_fields] in Hp. apply andb_prop in Hp as [_ Hp]. apply andb_prop in Hp as [_ Hpr].
    cbn [tree_of map fst snd]. rewrite to_obj_struct.
    assert (Hle : forall kvr, looks_encrypted T ((n, TDict [(eszf, TLeaf (pname eszp) z); (ebuf, tree_of (VList_ l))]) :: kvr) = true).
    { intros kvr. unfold looks_encrypted. rewrite Et. cbn [map fst]. rewrite !String.eqb_refl. reflexivity. }
    rewrite Hle, String.eqb_refl.
    assert (Henc : to_obj_enc T (TDict [(eszf, TLeaf (pname eszp) z); (ebuf, tree_of (VList_ l))])
                   = Some (VStruct_ (TyN ename) [(eszf, Some (VInt_ (pname eszp) z)); (ebuf, Some (VList_ l))])).
    { unfold to_obj_enc. rewrite Et. unfold to_obj_2b. cbn [map fst snd first_is_zero all_some fold_right leaf_obj].
      rewrite String.eqb_refl, Hbs, String.eqb_refl, (prim_list_back ep l Hl). unfold tpm2b_fix. cbn [tree_is_empty_dict tree_of]. rewrite !andb_false_r. reflexivity. }
    change (TList (map (fun x : value => Some (tree_of x)) l)) with (tree_of (VList_ l)). rewrite Henc.
    fold img. rewrite (img_all_some (to_obj_fields T r) rest); [reflexivity|].
    intros k o Hin. apply (proj1 (proj2 (to_obj_all T)) r Hnr Hpr Hd2 rest Hr k o Hin).
  Qed.

  (** ---- messages *)
  Lemma area_plain cc t : lookupZ cc (cmd_handles T) = Some t \/ lookupZ cc (cmd_params T) = Some t \/
                          lookupZ cc (rsp_handles T) = Some t \/ lookupZ cc (rsp_params T) = Some t -> plain_ok T t = true.
  Proof.
    intros H. unfold msg_plain in Hpl. apply andb_prop in Hpl as [Hl _]. apply andb_prop in Hl as [Hl _].
    rewrite forallb_forall in Hl.
    assert (Hin : exists c', In (c', t) (cmd_handles T ++ cmd_params T ++ rsp_handles T ++ rsp_params T)).
    { destruct H as [H|[H|[H|H]]]; destruct (lookupZ_in _ _ _ H) as (c' & Hi & _); exists c'; rewrite !in_app_iff; tauto. }
    destruct Hin as (c' & Hin). apply (Hl _ Hin).
  Qed.
  Lemma auth_plain_cmd : plain_ok T (t_auth_cmd T) = true.
  Proof. unfold msg_plain in Hpl. apply andb_prop in Hpl as [Hl _]. apply andb_prop in Hl as [_ Hl]. exact Hl. Qed.
  Lemma auth_plain_rsp : plain_ok T (t_auth_rsp T) = true.
  Proof. unfold msg_plain in Hpl. apply andb_prop in Hpl as [_ Hl]. exact Hl. Qed.

  Lemma auth_list_placed t l : named_ty t = true -> all_of (wsh t) l -> forall x, In x l -> placed (oe_ty T t x) (tree_of x).
  Proof. intros Hn Hl. apply (all_of_placed (wsh t)); [intros x Hx; apply (proj1 (dict_all T) t Hn x Hx)|exact Hl]. Qed.

  Lemma auth_list_back t l : named_ty t = true -> plain_ok T t = true -> all_of (wsh t) l ->
    to_list (to_obj_ty T t) (tree_of (VList_ l)) = Some (VList_ l).
  Proof. intros Hn Hp Hl. apply (list_back T t l (proj1 (to_obj_all T) t) Hn Hp Hl). Qed.

  Ltac nat0_solve NT :=
    repeat (apply nat0_app); first [apply nat0_child, nat1_leaf | apply (nat0_child (oe_ty T _ _)), NT
                                   | apply (nat0_child (fun p => oe_list _ _ p _)), nat1_list; intros ?; apply NT].

  Ltac step H := rewrite map_app, build_app; unfold pchild at 1; cbn [app]; erewrite (fun n k Hk => placed_blk _ _ n k H Hk) by reflexivity; cbn [app].
  Ltac lstep t Hn Hl := rewrite map_app, build_app; unfold pchild at 1; cbn [app];
    erewrite (fun n k Hk => list_blk (list_id t) (oe_ty T t) n _ k eq_refl (auth_list_placed t _ Hn Hl) Hk) by reflexivity; cbn [app].

  Lemma command_placed v : cmd_shape T v -> placed (oe_command T v) (tree_of v).
  Proof.
    intros (cc & tagn & tagz & szn & szz & ccn & hty & hx & pty & pv & Lh & Lp & Wh & Wp & Hv).
    destruct (natural_all T) as (NT & _).
    pose proof (area_named T Hnm cc hty (or_introl Lh)) as Nh. pose proof (area_named T Hnm cc pty (or_intror (or_introl Lp))) as Np.
    pose proof (proj1 (dict_all T) hty Nh hx Wh) as Ph. pose proof (wshp_placed pty pv Np Wp) as Pp.
    destruct Hv as [->|(asn & asz & l & Wl & ->)].
    - apply (placed_ext _ (fun pa => ev_node pa (TyN "Command") ::
               (oe_leaf (VInt_ tagn tagz) (pchild pa "tag") ++ oe_leaf (VInt_ szn szz) (pchild pa "commandSize") ++ oe_leaf (VInt_ ccn cc) (pchild pa "commandCode") ++
                oe_ty T hty hx (pchild pa "handles") ++ oe_ty T pty pv (pchild pa "parameters")))).
      { intros pa. unfold oe_command, oe_req, oe_opt. cbn [lookupS String.eqb Ascii.eqb Bool.eqb as_int]. rewrite Lh, Lp. reflexivity. }
      apply placed_node; [reflexivity|nat0_solve NT|].
      step (placed_leaf tagn tagz). step (placed_leaf szn szz). step (placed_leaf ccn cc). step Ph.
      unfold pchild; cbn [app]. erewrite (fun n k Hk => placed_blk _ _ n k Pp Hk) by reflexivity. reflexivity.
    - apply (placed_ext _ (fun pa => ev_node pa (TyN "Command") ::
               (oe_leaf (VInt_ tagn tagz) (pchild pa "tag") ++ oe_leaf (VInt_ szn szz) (pchild pa "commandSize") ++ oe_leaf (VInt_ ccn cc) (pchild pa "commandCode") ++
                oe_ty T hty hx (pchild pa "handles") ++ oe_leaf (VInt_ asn asz) (pchild pa "authSize") ++
                oe_list (list_id (t_auth_cmd T)) (oe_ty T (t_auth_cmd T)) (pchild pa "authorizationArea") (VList_ l) ++ oe_ty T pty pv (pchild pa "parameters")))).
      { intros pa. unfold oe_command, oe_req, oe_opt. cbn [lookupS String.eqb Ascii.eqb Bool.eqb as_int]. rewrite Lh, Lp. reflexivity. }
      apply placed_node; [reflexivity|nat0_solve NT|].
      step (placed_leaf tagn tagz). step (placed_leaf szn szz). step (placed_leaf ccn cc). step Ph. step (placed_leaf asn asz).
      lstep (t_auth_cmd T) (auth_named_cmd T Hnm) Wl.
      unfold pchild; cbn [app]. erewrite (fun n k Hk => placed_blk _ _ n k Pp Hk) by reflexivity. reflexivity.
  Qed.

  Theorem command_back v : cmd_shape T v -> events_to_obj T RCommand (oe_command T v root_path) = Some v.
  Proof.
    intros Hs. pose proof (command_placed v Hs) as Hp.
    unfold events_to_obj. rewrite events_to_dict_build. change root_path with [mkNode "" None].
    rewrite (placed_blk (oe_command T v) (tree_of v) "" [] Hp eq_refl). cbn [app lookupS String.eqb].
    destruct Hs as (cc & tagn & tagz & szn & szz & ccn & hty & hx & pty & pv & Lh & Lp & Wh & Wp & Hv).
    pose proof (area_named T Hnm cc hty (or_introl Lh)) as Nh. pose proof (area_named T Hnm cc pty (or_intror (or_introl Lp))) as Np.
    pose proof (proj1 (to_obj_all T) hty Nh (area_plain cc hty (or_introl Lh)) hx Wh) as Bh.
    pose proof (wshp_back pty pv Np (area_plain cc pty (or_intror (or_introl Lp))) Wp) as Bp.
    destruct Hv as [->|(asn & asz & l & Wl & ->)]; cbn [tree_of map fst snd]; unfold tree_cc, to_obj_msg;
      cbn [lookupS String.eqb Ascii.eqb Bool.eqb map fst snd leaf_obj]; rewrite Lh, Lp, Bh, Bp.
    - reflexivity.
    - change (TList (map (fun x : value => Some (tree_of x)) l)) with (tree_of (VList_ l)).
      rewrite (auth_list_back _ l (auth_named_cmd T Hnm) auth_plain_cmd Wl). reflexivity.
  Qed.

  Lemma response_placed cc v : rsp_shape T cc v -> placed (oe_response T cc v) (tree_of v).
  Proof.
    intros (tagn & tagz & szn & szz & rcn & rc & Hv).
    destruct (natural_all T) as (NT & _).
    destruct Hv as [->|(c & hty & hx & pty & px & -> & Lh & Lp & Wh & Wp & Hv)].
    - apply (placed_ext _ (fun pa => ev_node pa (TyN "Response") ::
               (oe_leaf (VInt_ tagn tagz) (pchild pa "tag") ++ oe_leaf (VInt_ szn szz) (pchild pa "responseSize") ++ oe_leaf (VInt_ rcn rc) (pchild pa "responseCode")))).
      { intros pa. unfold oe_response, oe_req, oe_opt. cbn [lookupS String.eqb Ascii.eqb Bool.eqb as_int app]. rewrite !app_nil_r. reflexivity. }
      apply placed_node; [reflexivity|nat0_solve NT|].
      step (placed_leaf tagn tagz). step (placed_leaf szn szz).
      unfold pchild; cbn [app]. erewrite (fun n k Hk => placed_blk _ _ n k (placed_leaf rcn rc) Hk) by reflexivity. reflexivity.
    - pose proof (area_named T Hnm c hty (or_intror (or_intror (or_introl Lh)))) as Nh. pose proof (area_named T Hnm c pty (or_intror (or_intror (or_intror Lp)))) as Np.
      pose proof (wshp_placed hty hx Nh Wh) as Ph. pose proof (wshp_placed pty px Np Wp) as Pp.
      destruct Hv as [->|(psn & psz & l & Wl & ->)].
      + apply (placed_ext _ (fun pa => ev_node pa (TyN "Response") ::
                 (oe_leaf (VInt_ tagn tagz) (pchild pa "tag") ++ oe_leaf (VInt_ szn szz) (pchild pa "responseSize") ++ oe_leaf (VInt_ rcn rc) (pchild pa "responseCode") ++
                  oe_ty T hty hx (pchild pa "handles") ++ oe_ty T pty px (pchild pa "parameters")))).
        { intros pa. unfold oe_response, oe_req, oe_opt. cbn [lookupS String.eqb Ascii.eqb Bool.eqb as_int]. rewrite Lh, Lp. cbn [app]. rewrite !app_nil_r. reflexivity. }
        apply placed_node; [reflexivity|nat0_solve NT|].
        step (placed_leaf tagn tagz). step (placed_leaf szn szz). step (placed_leaf rcn rc). step Ph.
        unfold pchild; cbn [app]. erewrite (fun n k Hk => placed_blk _ _ n k Pp Hk) by reflexivity. reflexivity.
      + apply (placed_ext _ (fun pa => ev_node pa (TyN "Response") ::
                 (oe_leaf (VInt_ tagn tagz) (pchild pa "tag") ++ oe_leaf (VInt_ szn szz) (pchild pa "responseSize") ++ oe_leaf (VInt_ rcn rc) (pchild pa "responseCode") ++
                  oe_ty T hty hx (pchild pa "handles") ++ oe_leaf (VInt_ psn psz) (pchild pa "parameterSize") ++ oe_ty T pty px (pchild pa "parameters") ++
                  oe_list (list_id (t_auth_rsp T)) (oe_ty T (t_auth_rsp T)) (pchild pa "authorizationArea") (VList_ l)))).
        { intros pa. unfold oe_response, oe_req, oe_opt. cbn [lookupS String.eqb Ascii.eqb Bool.eqb as_int]. rewrite Lh, Lp. reflexivity. }
        apply placed_node; [reflexivity|nat0_solve NT|].
        step (placed_leaf tagn tagz). step (placed_leaf szn szz). step (placed_leaf rcn rc). step Ph. step (placed_leaf psn psz). step Pp.
        unfold pchild; cbn [app]. erewrite (fun n k Hk => list_blk (list_id (t_auth_rsp T)) (oe_ty T (t_auth_rsp T)) n _ k eq_refl (auth_list_placed (t_auth_rsp T) _ (auth_named_rsp T Hnm) Wl) Hk) by reflexivity. reflexivity.
  Qed.

  Theorem response_back cc enc v : rsp_shape T cc v -> events_to_obj T (RResponse cc enc) (oe_response T cc v root_path) = Some v.
  Proof.
    intros Hs. pose proof (response_placed cc v Hs) as Hp.
    unfold events_to_obj. rewrite events_to_dict_build. change root_path with [mkNode "" None].
    rewrite (placed_blk (oe_response T cc v) (tree_of v) "" [] Hp eq_refl). cbn [app lookupS String.eqb].
    destruct Hs as (tagn & tagz & szn & szz & rcn & rc & Hv).
    destruct Hv as [->|(c & hty & hx & pty & px & -> & Lh & Lp & Wh & Wp & Hv)].
    - cbn [tree_of map fst snd]. unfold to_obj_msg. cbn [lookupS String.eqb Ascii.eqb Bool.eqb map fst snd leaf_obj]. reflexivity.
    - pose proof (area_named T Hnm c hty (or_intror (or_intror (or_introl Lh)))) as Nh. pose proof (area_named T Hnm c pty (or_intror (or_intror (or_intror Lp)))) as Np.
      pose proof (wshp_back hty hx Nh (area_plain c hty (or_intror (or_intror (or_introl Lh)))) Wh) as Bh.
      pose proof (wshp_back pty px Np (area_plain c pty (or_intror (or_intror (or_intror Lp)))) Wp) as Bp.
      destruct Hv as [->|(psn & psz & l & Wl & ->)]; cbn [tree_of map fst snd]; unfold to_obj_msg;
        cbn [lookupS String.eqb Ascii.eqb Bool.eqb map fst snd leaf_obj]; rewrite Lh, Lp, Bh, Bp.
      + reflexivity.
      + change (TList (map (fun x : value => Some (tree_of x)) l)) with (tree_of (VList_ l)).
        rewrite (auth_list_back _ l (auth_named_rsp T Hnm) auth_plain_rsp Wl). reflexivity.
  Qed.
End Back.

(** ---- through the byte pump: the decoded events, rebuilt into an object, give the object the decoder returned *)
Definition root_plain (T : tables) (r : root) : Prop :=
  match r with RType t => plain_ok T t = true | _ => True end.

Theorem decoded_events_rebuild_object T r bs evs :
  msg_named T = true -> msg_plain T = true -> root_named T r -> root_plain T r -> is_stream_root r = false ->
  decode T true r bs = (evs, OAccepted) ->
  exists v es, decode_obj T true r bs = Some v /\ map fst evs = map Ev es /\ es = obj_to_events T r v /\ events_to_obj T r es = Some v.
Proof.
  intros Hn Hp Hr Hrp Hs D. destruct (decoded_object_shape T r bs evs Hn Hr Hs D) as (v & Hv & He & Hsh).
  exists v, (obj_to_events T r v). split; [exact Hv|]. split; [exact He|]. split; [reflexivity|].
  destruct r as [t| |cc enc|]; cbn [obj_to_events root_shape root_named root_plain] in *.
  - apply (type_back T t v Hr Hrp Hsh).
  - apply (command_back T Hn Hp v Hsh).
  - apply (response_back T Hn Hp cc enc v Hsh).
  - discriminate.
Qed.
