(** Simulation, part 8: commands. *)
From Coq Require Import ZArith List String Bool Lia ZifyBool.
From TV Require Import Layout.Types Base.Bytes Model.Monad Model.Constraints Model.Ints Model.Decoder Model.Message
  Spec.Value Spec.Message Proofs.Closure Proofs.LowClosure Proofs.Incremental Proofs.Sim1 Proofs.Sim2 Proofs.Sim3 Proofs.Sim4 Proofs.Sim7.
Import ListNotations.
Open Scope string_scope.
Open Scope list_scope.
Open Scope Z_scope.

Lemma run_silent' A (m : M A) s s' a rest : m s = ([], s', Ok a) -> inp s = rest -> inp s' = rest -> wf_st s' ->
  run_to m s [] rest (fun a' s'' => a' = a /\ s'' = s').
Proof. intros E I I' W. subst rest. apply run_silent; assumption. Qed.

Lemma run_ret' A (a : A) s rest (P : A -> st -> Prop) : wf_st s -> inp s = rest -> P a s -> run_to (ret a) s [] rest P.
Proof. intros W I Pa. subst rest. apply run_ret; assumption. Qed.

(** a run inside a region followed by [rest] *)
Lemma ok_run_region A (m : M A) s x items r (P : A -> Prop) rest : incr m -> inp s = x ++ rest ->
  ok_run m (mkSt x (store s) (lst s)) items r P -> ok_run m s items (r ++ rest) P.
Proof.
  intros Hi I H. apply (ok_run_ext _ _ _ _ _ rest _ Hi) in H.
  replace (ext (mkSt x (store s) (lst s)) rest) with s in H; [exact H|].
  unfold ext. cbn [inp store lst]. destruct s as [i0 st0 l0]. cbn [inp] in I. subst i0. reflexivity.
Qed.

Lemma sp_prim_here p pa h x : blen h = pwidth p -> sp_prim p pa (h ++ x) = Some (SPrim pa p (from_bytes (psigned p) h), from_bytes (psigned p) h, x).
Proof.
  intros Hl. unfold sp_prim, split_at.
  replace ((pwidth p <? 0) || (Z.of_nat (List.length (h ++ x)) <? pwidth p)) with false
    by (rewrite app_length; unfold blen in Hl; lia).
  replace (Z.to_nat (pwidth p)) with (List.length h + 0)%nat by (unfold blen in Hl; lia).
  rewrite firstn_app_2, skipn_app. cbn [firstn]. rewrite app_nil_r.
  replace (List.length h + 0 - List.length h)%nat with 0%nat by lia. rewrite skipn_all2 by lia. reflexivity.
Qed.

Lemma one_entry_eq (cid : nat) (m : option Z) (x y : Z) : x = y -> [(cid, m, x)] = [(cid, m, y)].
Proof. intros ->. reflexivity. Qed.

(** the second constraint object of a message: allocated, not listed, untouched so far *)
Definition aid_ok (aid : nat) (s : st) : Prop :=
  (aid < List.length (store s))%nat /\ ~ In aid (lst s) /\ get_sc s aid = sc_new.

Lemma aid_ok_frame aid s s' : aid_ok aid s -> frame s s' -> aid_ok aid s'.
Proof.
  intros (Hl & Hn & Hg) [L H]. destruct (H aid Hl Hn) as [G N]. split; [lia|]. split; [exact N|congruence].
Qed.

Section Cmd.
  Variable T : tables.
  Variable abort : bool.
  Hypothesis Hauth : session_type_ok (sess_attr_field T) (t_auth_cmd T) = true.

  Lemma sim_ty_region t pa sel enc x v r rest s : sp_ty T t pa sel enc x = Some (v, r) -> ok_leaves abort v = true ->
    wf_st s -> inp s = x ++ rest -> fits (view s) (blen x - blen r) ->
    ok_run (dec_ty T abort t pa sel enc) s (items_of v) (r ++ rest) (val_ok v).
  Proof.
    intros H AV W I F. apply ok_run_region with (x := x); [apply incr_dec_ty|exact I|].
    destruct (sim_all T abort) as (St & _).
    apply (St t pa sel enc x v r (mkSt x (store s) (lst s)) H AV W eq_refl (sp_ty_len T _ _ _ _ _ _ _ H) F).
  Qed.

  (** the parameter area and the end of the command *)
  Lemma cmd_params_sim pa cid aid cc vl area enc pty pv r6 rest total s :
    lookupZ cc (cmd_params T) = Some pty ->
    sp_ty T pty (pchild pa "parameters") None enc r6 = Some (pv, []) -> ok_leaves abort pv = true ->
    wf_st s -> inp s = r6 ++ rest -> view s = [(cid, Some total, total - blen r6)] ->
    run_to (cmd_params_step T abort pa cid aid cc vl area enc) s (items_of pv) rest
      (fun res s' => view s' = [] /\ cr_cc res = Some cc /\ cr_area res = area).
  Proof.
    intros Lp Ep AV W I Vw. unfold cmd_params_step. rewrite Lp.
    rewrite <- (app_nil_r (items_of pv)).
    eapply run_try_field with (mid := rest).
    - apply run_of_ok. apply (sim_ty_region _ _ _ _ r6 pv [] rest s Ep AV W I).
      rewrite Vw. constructor; [cbn; unfold blen; cbn; lia|constructor].
    - cbv beta. intros s1 a W1 I1 (V1 & Fr1 & Pa).
      assert (V1' : view s1 = [] ++ [(cid, Some total, total)]).
      { rewrite V1, Vw, I. cbn [bump map bump_entry app]. apply one_entry_eq. unfold blen. rewrite app_length. cbn. lia. }
      destruct (assert_done_spec abort cid total [] s1 W1 V1' ltac:(intros [])) as (s2 & E2 & I2 & L2 & V2 & W2 & _).
      apply run_bind with (i1 := []) (i2 := []) (mid := rest) (P := fun a' s'' => a' = tt /\ s'' = s2).
      + apply run_silent'; [exact E2|exact I1|congruence|exact W2].
      + intros s3 u W3 I3 (-> & ->). apply run_ret'; [exact W2|exact I3|]. cbn [cr_cc cr_area]. repeat split. exact V2.
  Qed.

  Lemma is_param_enc_sess mask sessions accs : Forall2 (sess_elem_ok (sess_attr_field T)) sessions accs ->
    is_param_enc (sess_attr_field T) mask (Some (listval accs)) = Some (sess_bit (sess_attr_field T) mask sessions).
  Proof. intros H. unfold is_param_enc, listval. apply (any_attr_sess _ mask _ _ H). Qed.

  (** the session area of a command (tag = SESSIONS), then the parameters *)
  Lemma cmd_sessions_sim pa cid aid cc v4 pty asv asz r4 r5 aregion r6 sessions pv rest total s :
    cid <> aid ->
    lookupZ cc (cmd_params T) = Some pty ->
    sp_prim (p_size32 T) (pchild pa "authSize") r4 = Some (asv, asz, r5) ->
    split_at asz r5 = Some (aregion, r6) ->
    sp_until_empty (fun p b => sp_ty T (t_auth_cmd T) p None false b) (pchild pa "authorizationArea")
                   (List.length aregion) 0 aregion = Some sessions ->
    sp_ty T pty (pchild pa "parameters") None (sess_bit (sess_attr_field T) (mask_decrypt T) sessions) r6 = Some (pv, []) ->
    ok_leaves abort asv = true -> forallb (ok_leaves abort) sessions = true -> ok_leaves abort pv = true ->
    wf_st s -> inp s = r4 ++ rest -> view s = [(cid, Some total, total - blen r4)] -> aid_ok aid s ->
    run_to
      (try_field abort [cid; aid] (dec_prim abort (p_size32 T) (pchild pa "authSize"))
         (ret (mkCmdRes (cmd_obj v4) (Some cc) None)) (fun asv0 =>
       let v5 := ("authSize", asv0) :: v4 in
       bind (set_constraint abort aid (pchild pa "authSize") (match as_int asv0 with Some z => z | None => 0 end)) (fun _ =>
       bind (append_lst aid) (fun _ =>
       try_field abort [cid; aid] (dec_sized_array abort (list_id (t_auth_cmd T)) (pchild pa "authorizationArea") aid
                                     (fun p => dec_ty T abort (t_auth_cmd T) p None false))
         (ret (mkCmdRes (cmd_obj v5) (Some cc) None)) (fun area =>
       let v6 := ("authorizationArea", area) :: v5 in
       match is_param_enc (sess_attr_field T) (mask_decrypt T) area with
       | Some enc => cmd_params_step T abort pa cid aid cc v6 area enc
       | None => internal_ IAuthNone
       end)))))
      s
      (items_of asv ++ (INode (pchild pa "authorizationArea") (list_id (t_auth_cmd T)) :: flat_map items_of sessions) ++ items_of pv)
      rest
      (fun res s' => view s' = [] /\ cr_cc res = Some cc /\
                     is_param_enc (sess_attr_field T) (mask_encrypt T) (cr_area res) =
                       Some (sess_bit (sess_attr_field T) (mask_encrypt T) sessions)).
  Proof.
    intros Hne Lp Ep4 Es2 Eu Ep AVa AVs AVp W I Vw Aid.
    destruct (sp_prim_some _ _ _ _ _ _ Ep4) as (h & Hr4 & Hl & Hw & Hz & Hasv).
    destruct (split_at_some _ _ _ _ Es2) as (Hr5 & Hal & Hn0).
    assert (B4 : blen r4 = pwidth (p_size32 T) + blen r5) by (rewrite Hr4; unfold blen in *; rewrite app_length; lia).
    assert (B5 : blen r5 = asz + blen r6) by (rewrite Hr5; unfold blen in *; rewrite app_length; lia).
    eapply run_try_field with (mid := r5 ++ rest)
      (P := fun a s1 => a = Some (VInt_ (pname (p_size32 T)) asz) /\ view s1 = [(cid, Some total, total - blen r5)] /\ aid_ok aid s1).
    - eapply run_weaken; [|apply run_of_ok;
        apply (sim_prim abort (p_size32 T) (pchild pa "authSize") (r4 ++ rest) asv asz (r5 ++ rest) s)].
      + cbv beta. intros a s1 (V1 & Fr1 & ->). split; [reflexivity|]. split; [|exact (aid_ok_frame _ _ _ Aid Fr1)].
        rewrite V1, Vw, I. cbn [bump map bump_entry]. apply one_entry_eq. unfold blen in *. rewrite !app_length. lia.
      + rewrite Hasv, Hz, Hr4, <- app_assoc. apply sp_prim_here. exact Hl.
      + subst asv. exact AVa.
      + exact W.
      + exact I.
      + rewrite Vw. constructor; [cbn; unfold blen in *; rewrite !app_length; lia|constructor].
    - cbv beta zeta. intros s1 a W1 I1 (-> & V1 & Aid1). cbn [as_int].
      destruct Aid1 as (Al1 & An1 & Ag1).
      destruct (set_constraint_spec abort aid (pchild pa "authSize") asz s1 W1 Hn0 Al1)
        as (s2 & E2 & I2 & L2 & V2 & W2 & Len2 & G2 & G2' & _).
      { rewrite V1. constructor; [right; cbn; unfold blen in *; lia|constructor]. }
      assert (V2' : view s2 = [(cid, Some total, total - blen r5)]).
      { rewrite V2, V1. cbn [map set_entry]. replace (Nat.eqb cid aid) with false by (symmetry; apply Nat.eqb_neq; exact Hne). reflexivity. }
      destruct (append_lst_spec aid s2 W2 ltac:(rewrite L2; exact An1) ltac:(lia) ltac:(rewrite G2, Ag1; reflexivity))
        as (s3 & E3 & I3 & St3 & V3 & W3 & _).
      assert (V3' : view s3 = [(cid, Some total, total - blen r5)] ++ [(aid, Some asz, asz - blen aregion)]).
      { rewrite V3, V2'. unfold entry_of. rewrite G2, Ag1. cbn [sc_max sc_already sc_new app]. f_equal. apply one_entry_eq. lia. }
      apply run_bind with (i1 := []) (mid := r5 ++ rest) (P := fun a' s'' => a' = tt /\ s'' = s2).
      { apply run_silent'; [exact E2|exact I1|congruence|exact W2]. }
      intros s2' u W2' I2' (-> & ->).
      apply run_bind with (i1 := []) (mid := r5 ++ rest) (P := fun a' s'' => a' = tt /\ s'' = s3).
      { apply run_silent'; [exact E3|congruence|congruence|exact W3]. }
      intros s3' u W3' I3' (-> & ->).
      eapply run_try_field with (mid := r6 ++ rest)
        (i1 := INode (pchild pa "authorizationArea") (list_id (t_auth_cmd T)) :: flat_map items_of sessions) (i2 := items_of pv).
      + apply (sized_array_sim abort (fun p b => sp_ty T (t_auth_cmd T) p None false b) (fun p => dec_ty T abort (t_auth_cmd T) p None false)
                 (sess_elem_ok (sess_attr_field T))) with (mx := asz) (bs := aregion) (V := [(cid, Some total, total - blen r5)]) (vs := sessions).
        * intros p b v r s0 Hf AV0 W0 I0 L0 F0. apply (session_elem_sim T (sess_attr_field T) abort _ _ _ _ _ _ Hauth Hf AV0 W0 I0 L0 F0).
        * intros p. apply incr_dec_ty.
        * exact Eu.
        * exact AVs.
        * exact W3.
        * rewrite I3', Hr5, <- app_assoc. reflexivity.
        * exact V3'.
        * cbn. intros [Hx|[]]. apply Hne. exact Hx.
        * constructor; [cbn; unfold blen in *; lia|constructor].
      + cbv beta zeta. intros s4 area W4 I4 (V4 & Fr4 & _ & _ & accs & -> & Facc).
        rewrite (is_param_enc_sess (mask_decrypt T) sessions accs Facc).
        eapply run_weaken; [|apply (cmd_params_sim pa cid aid cc _ (Some (listval accs)) _ pty pv r6 rest total s4 Lp Ep AVp W4 I4)].
        * cbv beta. intros res s' (V' & Hcc & Har). split; [exact V'|]. split; [exact Hcc|].
          rewrite Har. apply is_param_enc_sess. exact Facc.
        * rewrite V4. cbn [bump map bump_entry]. apply one_entry_eq. lia.
  Qed.

  (** the whole command *)
  Theorem cmd_sim pa bs v ci rest s :
    sp_command T pa bs = Some (v, ci, rest) -> ok_leaves abort v = true -> wf_st s -> inp s = bs ->
    run_to (dec_command T abort pa) s (items_of v) rest
      (fun res s' => view s' = [] /\ cr_cc res = Some (ci_cc ci) /\
                     is_param_enc (sess_attr_field T) (mask_encrypt T) (cr_area res) = Some (ci_rsp_enc ci)).
  Proof.
    unfold sp_command. intros H AV W I.
    destruct (sp_prim (p_cmd_tag T) (pchild pa "tag") bs) as [[[tagv tag] r1]|] eqn:Ep1; [|discriminate].
    destruct (sp_prim (p_size32 T) (pchild pa "commandSize") r1) as [[[szv total] r2]|] eqn:Ep2; [|discriminate].
    destruct (split_at (total - (pwidth (p_cmd_tag T) + pwidth (p_size32 T))) r2) as [[body rest0]|] eqn:Es; [|discriminate].
    destruct (sp_prim (p_cc T) (pchild pa "commandCode") body) as [[[ccv cc] r3]|] eqn:Ep3; [|discriminate].
    destruct (lookupZ cc (cmd_handles T)) as [hty|] eqn:Lh; [|discriminate].
    destruct (lookupZ cc (cmd_params T)) as [pty|] eqn:Lp; [|discriminate].
    destruct (sp_ty T hty (pchild pa "handles") None false r3) as [[hv r4]|] eqn:Eh; [|discriminate].
    destruct (sp_prim_some _ _ _ _ _ _ Ep1) as (h1 & Hbs & Hl1 & Hw1 & Hz1 & Htagv).
    destruct (sp_prim_some _ _ _ _ _ _ Ep2) as (h2 & Hr1 & Hl2 & Hw2 & Hz2 & Hszv).
    destruct (split_at_some _ _ _ _ Es) as (Hr2 & Hlb & Hn0).
    destruct (sp_prim_some _ _ _ _ _ _ Ep3) as (h3 & Hbody & Hl3 & Hw3 & Hz3 & Hccv).
    pose proof (sp_ty_len T _ _ _ _ _ _ _ Eh) as L4.
    set (wt := pwidth (p_cmd_tag T)) in *. set (ws := pwidth (p_size32 T)) in *. set (wc := pwidth (p_cc T)) in *.
    assert (B3 : blen body = wc + blen r3) by (rewrite Hbody; unfold blen in *; rewrite app_length; lia).
    (* the two constraint objects and the list *)
    set (cid := List.length (store s)).
    destruct (new_sc_spec s W) as (s1 & E1 & I1 & L1 & V1 & W1 & Len1 & G1 & Fr1).
    destruct (new_sc_spec s1 W1) as (s2 & E2 & I2 & L2 & V2 & W2 & Len2 & G2 & Fr2).
    set (aid := List.length (store s1)) in *.
    assert (Haid : aid = S cid) by (unfold aid, cid; exact Len1).
    assert (Ncid : ~ In cid (lst s1)).
    { rewrite L1. intros Hx. destruct W as [_ AL]. rewrite Forall_forall in AL. specialize (AL _ Hx). unfold cid in AL. lia. }
    assert (Gc2 : get_sc s2 cid = sc_new).
    { destruct Fr2 as [_ Hf]. destruct (Hf cid ltac:(lia) Ncid) as [Hg _]. rewrite Hg. exact G1. }
    set (s3 := mkSt (inp s2) (store s2) [cid]).
    assert (W3 : wf_st s3).
    { split; cbn [s3 lst store]; [constructor; [intros []|constructor]|constructor; [lia|constructor]]. }
    assert (V3 : view s3 = [(cid, None, 0)]).
    { unfold view. cbn [s3 lst filter]. unfold live. change (get_sc s3 cid) with (get_sc s2 cid). rewrite Gc2. cbn [sc_obs sc_new negb map].
      unfold entry_of. change (get_sc s3 cid) with (get_sc s2 cid). rewrite Gc2. reflexivity. }
    assert (A3 : aid_ok aid s3).
    { split; [cbn [s3 store]; lia|]. split; [cbn [s3 lst]; intros [Hx|[]]; lia|]. exact G2. }
    assert (I3 : inp s3 = bs) by (cbn [s3 inp]; congruence).
    (* the items, grouped the way the decoder produces them *)
    assert (Hitems : exists pre pv, v = SNode pa (TyN "Command") ([tagv; szv; ccv; hv] ++ pre ++ [pv])).
    { destruct (tag =? st_sessions T).
      - destruct (sp_prim (p_size32 T) _ r4) as [[[asv asz] r5]|]; [|discriminate].
        destruct (split_at asz r5) as [[aregion r6]|]; [|discriminate].
        destruct (sp_until_empty _ _ _ _ _) as [sessions|]; [|discriminate].
        destruct (sp_ty T pty _ None _ r6) as [[pv [|x xs]]|]; try discriminate. injection H as <- _ _.
        exists [asv; SNode (pchild pa "authorizationArea") (list_id (t_auth_cmd T)) sessions], pv. reflexivity.
      - destruct (sp_ty T pty _ None _ r4) as [[pv [|x xs]]|]; try discriminate. injection H as <- _ _. exists [], pv. reflexivity. }
    destruct Hitems as (pre & pv & Hv).
    assert (AVs : ok_leaves abort tagv = true /\ ok_leaves abort szv = true /\ ok_leaves abort ccv = true /\ ok_leaves abort hv = true /\
                  forallb (ok_leaves abort) pre = true /\ ok_leaves abort pv = true).
    { rewrite Hv in AV. cbn [ok_leaves] in AV. rewrite forallb_app in AV. apply andb_prop in AV as [A1 A2].
      cbn [forallb] in A1. rewrite forallb_app in A2. cbn [forallb] in A2.
      apply andb_prop in A1 as [At A1]. apply andb_prop in A1 as [As A1]. apply andb_prop in A1 as [Ac A1].
      apply andb_prop in A1 as [Ah _]. apply andb_prop in A2 as [Apre A2]. apply andb_prop in A2 as [Apv _]. repeat split; assumption. }
    destruct AVs as (AVt & AVz & AVc & AVh & AVpre & AVpv).
    replace (items_of v) with ([] ++ [] ++ [] ++ [INode pa (TyN "Command")] ++ items_of tagv ++ items_of szv ++ [] ++ items_of ccv ++ items_of hv ++
                                (flat_map items_of pre ++ items_of pv))
      by (rewrite Hv; cbn [items_of flat_map app]; rewrite !flat_map_app; cbn [flat_map]; rewrite ?app_nil_r, <- ?app_assoc; reflexivity).
    unfold dec_command.
    apply run_bind with (mid := bs) (P := fun a s' => a = cid /\ s' = s1).
    { apply run_silent'; [exact E1|exact I|congruence|exact W1]. }
    intros s1' cid' W1' I1' (-> & ->).
    apply run_bind with (mid := bs) (P := fun a s' => a = aid /\ s' = s2).
    { apply run_silent'; [exact E2|exact I1'|congruence|exact W2]. }
    intros s2' aid' W2' I2' (-> & ->).
    apply run_bind with (mid := bs) (P := fun a s' => a = tt /\ s' = s3).
    { apply run_silent'; [reflexivity|exact I2'|exact I3|exact W3]. }
    intros s3' u W3' I3' (-> & ->).
    apply run_bind with (mid := bs) (P := fun _ s' => s' = s3).
    { rewrite <- I3. apply run_sev. exact W3. }
    intros s3' u' W3'' I3'' ->. cbv zeta.
    (* tag *)
    eapply run_try_field with (mid := r1)
      (P := fun a s4 => a = Some (VInt_ (pname (p_cmd_tag T)) tag) /\ view s4 = [(cid, None, wt)] /\ aid_ok aid s4).
    { eapply run_weaken; [|apply run_of_ok; apply (sim_prim abort (p_cmd_tag T) (pchild pa "tag") bs tagv tag r1 s3 Ep1)].
      - cbv beta. intros a s4 (V4 & Fr4 & ->). split; [reflexivity|]. split; [|exact (aid_ok_frame _ _ _ A3 Fr4)].
        rewrite V4, V3, I3, Hbs. cbn [bump map bump_entry]. apply one_entry_eq. unfold blen in *. rewrite app_length. fold wt. lia.
      - subst tagv. exact AVt.
      - exact W3.
      - exact I3.
      - rewrite V3. constructor; [exact Logic.I|constructor]. }
    cbv beta. intros s4 a W4 I4 (-> & V4 & A4).
    (* commandSize *)
    eapply run_try_field with (mid := r2)
      (P := fun a s5 => a = Some (VInt_ (pname (p_size32 T)) total) /\ view s5 = [(cid, None, wt + ws)] /\ aid_ok aid s5).
    { eapply run_weaken; [|apply run_of_ok; apply (sim_prim abort (p_size32 T) (pchild pa "commandSize") r1 szv total r2 s4 Ep2)].
      - cbv beta. intros a s5 (V5 & Fr5 & ->). split; [reflexivity|]. split; [|exact (aid_ok_frame _ _ _ A4 Fr5)].
        rewrite V5, V4, I4, Hr1. cbn [bump map bump_entry]. apply one_entry_eq. unfold blen in *. rewrite app_length. fold ws. lia.
      - subst szv. exact AVz.
      - exact W4.
      - exact I4.
      - rewrite V4. constructor; [exact Logic.I|constructor]. }
    cbv beta. intros s5 a W5 I5 (-> & V5 & A5). cbn [as_int].
    (* the message region is announced *)
    destruct (view_entry s5 cid None (wt + ws) ltac:(rewrite V5; left; reflexivity)) as (_ & _ & Hin5).
    assert (Hc5 : (cid < List.length (store s5))%nat) by (destruct W5 as [_ AL]; rewrite Forall_forall in AL; apply AL, Hin5).
    destruct (set_constraint_spec abort cid (pchild pa "commandSize") total s5 W5 ltac:(lia) Hc5)
      as (s6 & E6 & I6 & L6 & V6 & W6 & Len6 & G6 & G6' & _).
    { rewrite V5. constructor; [left; reflexivity|constructor]. }
    assert (V6' : view s6 = [(cid, Some total, wt + ws)]).
    { rewrite V6, V5. cbn [map set_entry]. rewrite Nat.eqb_refl. reflexivity. }
    assert (A6 : aid_ok aid s6).
    { destruct A5 as (Al & An & Ag). split; [lia|]. split; [rewrite L6; exact An|]. rewrite G6' by lia. exact Ag. }
    apply run_bind with (mid := r2) (P := fun a s' => a = tt /\ s' = s6).
    { apply run_silent'; [exact E6|exact I5|congruence|exact W6]. }
    intros s6' u6 W6' I6' (-> & ->).
    (* commandCode *)
    eapply run_try_field with (mid := r3 ++ rest0)
      (P := fun a s7 => a = Some (VInt_ (pname (p_cc T)) cc) /\ view s7 = [(cid, Some total, total - blen r3)] /\ aid_ok aid s7).
    { eapply run_weaken; [|apply run_of_ok; apply (sim_prim abort (p_cc T) (pchild pa "commandCode") (body ++ rest0) ccv cc (r3 ++ rest0) s6)].
      - cbv beta. intros a s7 (V7 & Fr7 & ->). split; [reflexivity|]. split; [|exact (aid_ok_frame _ _ _ A6 Fr7)].
        rewrite V7, V6', I6', Hr2. cbn [bump map bump_entry]. apply one_entry_eq. unfold blen in *. rewrite !app_length. lia.
      - rewrite Hccv, Hz3, Hbody, <- app_assoc. apply sp_prim_here. exact Hl3.
      - subst ccv. exact AVc.
      - exact W6.
      - rewrite I6', Hr2. reflexivity.
      - rewrite V6'. constructor; [cbn; unfold blen in *; rewrite !app_length; lia|constructor]. }
    cbv beta. intros s7 a W7 I7 (-> & V7 & A7). cbn [as_int]. rewrite Lh.
    (* handles *)
    eapply run_try_field with (mid := r4 ++ rest0)
      (P := fun a s8 => view s8 = [(cid, Some total, total - blen r4)] /\ aid_ok aid s8).
    { eapply run_weaken; [|apply run_of_ok; apply (sim_ty_region hty (pchild pa "handles") None false r3 hv r4 rest0 s7 Eh AVh W7 I7)].
      - cbv beta. intros a s8 (V8 & Fr8 & _). split; [|exact (aid_ok_frame _ _ _ A7 Fr8)].
        rewrite V8, V7, I7. cbn [bump map bump_entry]. apply one_entry_eq. unfold blen in *. rewrite !app_length. lia.
      - rewrite V7. constructor; [cbn; unfold blen in *; lia|constructor]. }
    cbv beta. intros s8 hval W8 I8 (V8 & A8).
    assert (Hne : cid <> aid) by lia. cbn [as_int].
    destruct (tag =? st_sessions T) eqn:Etag.
    - (* with a session area *)
      destruct (sp_prim (p_size32 T) (pchild pa "authSize") r4) as [[[asv asz] r5]|] eqn:Ep4; [|discriminate].
      destruct (split_at asz r5) as [[aregion r6]|] eqn:Es2; [|discriminate].
      destruct (sp_until_empty _ _ _ _ _) as [sessions|] eqn:Eu; [|discriminate].
      destruct (sp_ty T pty _ None _ r6) as [[pv0 [|x xs]]|] eqn:Epp; try discriminate.
      injection H as Hv' <- <-. rewrite Hv in Hv'. injection Hv' as Hkids.
      assert (Hpre : [asv; SNode (pchild pa "authorizationArea") (list_id (t_auth_cmd T)) sessions] = pre /\ pv0 = pv)
        by (apply app_inj_tail; exact Hkids).
      destruct Hpre as [<- <-]. cbn [forallb] in AVpre. apply andb_prop in AVpre as [AVa AVs]. apply andb_prop in AVs as [AVs _].
      cbn [ok_leaves] in AVs.
      replace (flat_map items_of [asv; SNode (pchild pa "authorizationArea") (list_id (t_auth_cmd T)) sessions] ++ items_of pv0)
        with (items_of asv ++ (INode (pchild pa "authorizationArea") (list_id (t_auth_cmd T)) :: flat_map items_of sessions) ++ items_of pv0)
        by (cbn [flat_map items_of app]; rewrite ?app_nil_r, <- ?app_assoc; reflexivity).
      eapply run_weaken; [|apply (cmd_sessions_sim pa cid aid cc _ pty asv asz r4 r5 aregion r6 sessions pv0 rest0 total s8
                                     Hne Lp Ep4 Es2 Eu Epp AVa AVs AVpv W8 I8 V8 A8)].
      cbv beta. intros res s' R. exact R.
    - (* without *)
      destruct (sp_ty T pty _ None _ r4) as [[pv0 [|x xs]]|] eqn:Epp; try discriminate.
      injection H as Hv' <- <-. rewrite Hv in Hv'. injection Hv' as Hkids.
      assert (Hpre : [] = pre /\ pv0 = pv) by (apply (app_inj_tail [] pre pv0 pv); exact Hkids).
      destruct Hpre as [<- <-]. cbn [flat_map app].
      eapply run_weaken; [|apply (cmd_params_sim pa cid aid cc _ None false pty pv0 r4 rest0 total s8 Lp Epp AVpv W8 I8 V8)].
      cbv beta. intros res s' (V' & Hcc & Har). split; [exact V'|]. split; [exact Hcc|]. rewrite Har. reflexivity.
  Qed.
End Cmd.
