(** The byte pump: what it emits and how it ends, as functions of the processor's trace. *)
From Coq Require Import ZArith List String Bool Lia.
From TV Require Import Layout.Types Base.Bytes Model.Monad Model.Constraints Model.Ints Model.Decoder Model.Message
  Model.Pump Proofs.LowClosure Proofs.Account Proofs.Incremental.
Import ListNotations.
Open Scope list_scope.
Open Scope Z_scope.

(** the actions the pump yields, in order (without pull counts), for a trace starting after [nrd] bytes *)
Fixpoint emitted (is_stream : bool) (len : Z) (tr : list action) (nrd : Z) : list action :=
  match tr with
  | [] => []
  | Rd _ :: r => emitted is_stream len r (nrd + 1)
  | Ev e :: r =>
      if is_stream && (len <=? nrd) && is_root_event e then []
      else Ev e :: emitted is_stream len r nrd
  | Wn w :: r => Wn w :: emitted is_stream len r nrd
  end.

Lemma pump_go_emitted is_stream len tr ps ps' stopped :
  pump_go is_stream len tr ps = (ps', stopped) ->
  map fst (rev (ps_out ps')) = map fst (rev (ps_out ps)) ++ emitted is_stream len tr (ps_nrd ps).
Proof.
  revert ps. induction tr as [|a tr IH]; intros ps H; cbn [pump_go emitted] in *.
  - injection H as <- _. rewrite app_nil_r. reflexivity.
  - destruct a as [b|e|w].
    + rewrite (IH _ H). reflexivity.
    + destruct (is_stream && (len <=? ps_nrd ps) && is_root_event e).
      * injection H as <- _. cbn [ps_out]. rewrite app_nil_r. reflexivity.
      * rewrite (IH _ H). cbn [ps_out ps_nrd rev map]. rewrite map_app. cbn [map fst]. rewrite <- app_assoc. reflexivity.
    + rewrite (IH _ H). cbn [ps_out ps_nrd rev map]. rewrite map_app. cbn [map fst]. rewrite <- app_assoc. reflexivity.
Qed.

(** every pull count is at most one byte beyond what the processor had received when it yielded the event *)
Lemma pump_go_pulled is_stream len tr ps ps' stopped :
  0 <= len -> pump_go is_stream len tr ps = (ps', stopped) ->
  (forall a n, In (a, n) (ps_out ps) -> n <= len) ->
  forall a n, In (a, n) (ps_out ps') -> n <= len.
Proof.
  intros Hl. revert ps. induction tr as [|x tr IH]; intros ps H Hin a n Ha; cbn [pump_go] in H.
  - injection H as <- _. eapply Hin, Ha.
  - destruct x as [b|e|w].
    + eapply IH; [exact H| |exact Ha]. exact Hin.
    + destruct (is_stream && (len <=? ps_nrd ps) && is_root_event e).
      * injection H as <- _. eapply Hin, Ha.
      * eapply IH; [exact H| |exact Ha]. cbn [ps_out]. intros a' n' [E|E]; [injection E as <- <-; lia|eapply Hin, E].
    + eapply IH; [exact H| |exact Ha]. cbn [ps_out]. intros a' n' [E|E]; [injection E as <- <-; lia|eapply Hin, E].
Qed.

(** prefix stability of what the pump emits *)
Lemma emitted_prefix is_stream len1 len2 tr t nrd :
  len1 <= len2 -> exists rest, emitted is_stream len2 (tr ++ t) nrd = emitted is_stream len1 tr nrd ++ rest.
Proof.
  intros Hl. revert nrd. induction tr as [|a tr IH]; intros nrd; cbn [app emitted].
  - eexists. reflexivity.
  - destruct a as [b|e|w].
    + apply IH.
    + destruct (is_stream && (len1 <=? nrd) && is_root_event e) eqn:E1.
      * eexists. reflexivity.
      * assert (E2 : is_stream && (len2 <=? nrd) && is_root_event e = false).
        { destruct is_stream; [|reflexivity]. destruct (is_root_event e); [|rewrite andb_false_r; reflexivity].
          cbn [andb] in *. rewrite andb_true_r in *. lia. }
        rewrite E2. destruct (IH nrd) as (rest & ->). eexists. reflexivity.
    + destruct (IH nrd) as (rest & ->). eexists. reflexivity.
Qed.

(** C10, prefix stability, all inputs (strict mode): the events emitted for [xs] are a prefix of the events
    emitted for [xs ++ ys] *)
Theorem strict_events_prefix_stable T r xs ys evs1 o1 evs2 o2 :
  decode T true r xs = (evs1, o1) -> decode T true r (xs ++ ys) = (evs2, o2) ->
  exists rest, map fst evs2 = map fst evs1 ++ rest.
Proof.
  unfold decode, pump. intros H1 H2.
  destruct (dec_root T true r (init_st xs)) as [[tr1 s1] p1] eqn:E1.
  destruct (incr_dec_root T true r _ ys _ _ _ E1) as [Hne Hmore].
  assert (Hrun : exists t s2 p2, dec_root T true r (init_st (xs ++ ys)) = (tr1 ++ t, s2, p2)).
  { change (init_st (xs ++ ys)) with (ext (init_st xs) ys).
    destruct p1 as [a|e| |k|].
    - rewrite Hne by discriminate. exists [], (ext s1 ys), (Ok a). rewrite app_nil_r. reflexivity.
    - rewrite Hne by discriminate. exists [], (ext s1 ys), (Fail e). rewrite app_nil_r. reflexivity.
    - destruct (Hmore eq_refl) as (t & s2 & p2 & E). exists t, s2, p2. exact E.
    - rewrite Hne by discriminate. exists [], (ext s1 ys), (Internal k). rewrite app_nil_r. reflexivity.
    - rewrite Hne by discriminate. exists [], (ext s1 ys), Fuel. rewrite app_nil_r. reflexivity. }
  destruct Hrun as (t & s2 & p2 & E2). rewrite E2 in H2.
  destruct (pump_go (is_stream_root r) (Z.of_nat (List.length xs)) tr1 (mkP 0 None [])) as [ps1 st1] eqn:G1.
  destruct (pump_go (is_stream_root r) (Z.of_nat (List.length (xs ++ ys))) (tr1 ++ t) (mkP 0 None [])) as [ps2 st2] eqn:G2.
  pose proof (pump_go_emitted _ _ _ _ _ _ G1) as O1. pose proof (pump_go_emitted _ _ _ _ _ _ G2) as O2.
  cbn [ps_out ps_nrd rev map app] in O1, O2.
  assert (Hlen : Z.of_nat (List.length xs) <= Z.of_nat (List.length (xs ++ ys))) by (rewrite app_length; lia).
  destruct (emitted_prefix (is_stream_root r) _ _ tr1 t 0 Hlen) as (rest & Hp).
  assert (F1 : map fst evs1 = map fst (rev (ps_out ps1))).
  { destruct st1; [injection H1 as <- _; reflexivity|].
    destruct p1 as [a|e| |k|]; try (injection H1 as <- _; reflexivity).
    destruct (skipZ xs (ps_nrd ps1)); injection H1 as <- _; reflexivity. }
  assert (F2 : map fst evs2 = map fst (rev (ps_out ps2))).
  { destruct st2; [injection H2 as <- _; reflexivity|].
    destruct p2 as [a|e| |k|]; try (injection H2 as <- _; reflexivity).
    destruct (skipZ (xs ++ ys) (ps_nrd ps2)); injection H2 as <- _; reflexivity. }
  exists rest. rewrite F1, F2, O1, O2. exact Hp.
Qed.

(** C10, look-ahead: every pull count reported with an event is at most the input length, and by construction
    ([pump_go]) equals min(len, bytes received by the processor + 1) *)
Theorem pull_counts_bounded T abort r input evs o :
  decode T abort r input = (evs, o) -> forall a n, In (a, n) evs -> n <= Z.of_nat (List.length input).
Proof.
  unfold decode, pump. intros H a n Hin.
  destruct (dec_root T abort r (init_st input)) as [[tr s'] p] eqn:E.
  destruct (pump_go _ _ tr _) as [ps stp] eqn:G.
  assert (B : forall a n, In (a, n) (ps_out ps) -> n <= Z.of_nat (List.length input)).
  { eapply pump_go_pulled; [lia|exact G|]. cbn. intros ? ? []. }
  assert (B2 : forall x, In (a, n) (rev (x :: ps_out ps)) -> x = (a, n) \/ In (a, n) (ps_out ps)).
  { intros x Hx. apply in_rev in Hx. destruct Hx as [->|Hx]; [left; reflexivity|right; exact Hx]. }
  destruct stp.
  - injection H as <- _. apply in_rev in Hin. eapply B, Hin.
  - destruct p as [v|e| |k|].
    + destruct (skipZ input (ps_nrd ps)).
      * injection H as <- _. apply in_rev in Hin. eapply B, Hin.
      * destruct abort; injection H as <- _.
        -- apply in_rev in Hin. eapply B, Hin.
        -- destruct (B2 _ Hin) as [Eq|Hx]; [injection Eq as _ <-; lia|eapply B, Hx].
    + injection H as <- _. apply in_rev in Hin. eapply B, Hin.
    + destruct abort; injection H as <- _.
      * apply in_rev in Hin. eapply B, Hin.
      * destruct (B2 _ Hin) as [Eq|Hx]; [injection Eq as _ <-; lia|eapply B, Hx].
    + injection H as <- _. apply in_rev in Hin. eapply B, Hin.
    + injection H as <- _. apply in_rev in Hin. eapply B, Hin.
Qed.

(** [More] (suspended asking for a byte) only ever happens with the input used up *)
Definition more_empty {A} (m : M A) : Prop := forall s tr s', m s = (tr, s', More) -> inp s' = [].

Lemma take_bytes_false l n t rest : take_bytes l n = (t, rest, false) -> rest = [].
Proof.
  revert n t rest. induction l as [|b r IH]; intros n t rest H; cbn [take_bytes] in H.
  - destruct (n <=? 0); [discriminate|]. injection H as _ <-. reflexivity.
  - destruct (n <=? 0); [discriminate|]. destruct (take_bytes r (n - 1)) as [[t' rest'] d] eqn:E.
    injection H as _ <- ->. eapply IH. exact E.
Qed.

Lemma more_empty_lclosed : lclosed (@more_empty).
Proof.
  constructor.
  - intros A a s tr s' H. discriminate.
  - intros A B m f Hm Hf s tr s' H. unfold bind in H. destruct (m s) as [[tr1 s1] o1] eqn:E1.
    destruct o1 as [a|e| |k|]; try discriminate.
    + destruct (f a s1) as [[tr2 s2] o2] eqn:E2. injection H as _ <- ->. eapply Hf. exact E2.
    + injection H as _ <-. eapply Hm. exact E1.
  - intros s tr s' H. discriminate.
  - intros A e s tr s' H. discriminate.
  - intros A k s tr s' H. discriminate.
  - intros A s tr s' H. discriminate.
  - intros a s tr s' H. discriminate.
  - intros s tr s' H. unfold read1 in H. destruct (inp s) eqn:E; [injection H as _ <-; exact E|discriminate].
  - intros n s tr s' H. unfold consume in H. destruct (take_bytes (inp s) n) as [[t rest] d] eqn:E.
    destruct d; [discriminate|]. injection H as _ <-. cbn [inp]. eapply take_bytes_false. exact E.
  - intros i c s tr s' H. discriminate.
  - intros s tr s' H. discriminate.
  - intros l s tr s' H. discriminate.
  - intros i s tr s' H. discriminate.
  - intros i s tr s' H. discriminate.
  - intros A abort ids m h _ Hm Hh s tr s' H. unfold catch_exceeded in H. destruct (m s) as [[tr1 s1] o1] eqn:E1.
    destruct o1 as [a|e| |k|]; try discriminate.
    + destruct e as [| c v b | | | | |]; try discriminate.
      destruct (abort || negb (existsb (Nat.eqb (si_id c)) ids)); [discriminate|].
      destruct (h s1) as [[tr2 s2] o2] eqn:E2. injection H as _ <- ->. eapply Hh. exact E2.
    + injection H as _ <-. eapply Hm. exact E1.
Qed.

(** C05: how strict decoding ends, in terms of the processor's run.  Depleted: the processor is suspended
    asking for a byte, the whole input has been handed to it, nothing is left. *)
Theorem strict_depleted T r input evs cc :
  decode T true r input = (evs, ODepleted cc) ->
  exists tr s', dec_root T true r (init_st input) = (tr, s', More) /\ inp s' = [] /\ input = bytes_of tr.
Proof.
  unfold decode, pump. intros H.
  destruct (dec_root T true r (init_st input)) as [[tr s'] p] eqn:E.
  pose proof (accounts_dec_root T true r _ _ _ _ E) as A. cbn [init_st inp] in A.
  destruct (pump_go _ _ tr _) as [ps stp]. destruct stp; [discriminate|].
  destruct p as [v|e| |k|]; try discriminate.
  - destruct (skipZ input (ps_nrd ps)); discriminate.
  - exists tr, s'. split; [reflexivity|].
    assert (I : inp s' = []) by (eapply (L_dec_root _ more_empty_lclosed); exact E).
    split; [exact I|]. rewrite A, I, app_nil_r. reflexivity.
Qed.

(** Superfluous: the processor completed, and the error carries exactly the input it had not received *)
Theorem strict_superfluous T r input evs rest cc :
  decode T true r input = (evs, OSuperfluous rest cc) ->
  exists tr s' v, dec_root T true r (init_st input) = (tr, s', Ok v) /\ rest = inp s' /\ rest <> [] /\ input = bytes_of tr ++ rest.
Proof.
  unfold decode, pump. intros H.
  destruct (dec_root T true r (init_st input)) as [[tr s'] p] eqn:E.
  pose proof (accounts_dec_root T true r _ _ _ _ E) as A. cbn [init_st inp] in A.
  destruct (pump_go _ _ tr _) as [ps stp] eqn:G. destruct stp; [discriminate|].
  destruct (pump_go_nrd _ _ _ _ _ _ G) as (t1 & t2 & -> & N & S). rewrite (S eq_refl), app_nil_r in *.
  cbn [ps_nrd] in N. rewrite N, Z.add_0_l in H.
  assert (R : skipZ input (Z.of_nat (List.length (bytes_of t1))) = inp s') by (rewrite A at 1; apply skipZ_app).
  rewrite R in H.
  destruct p as [v|e| |k|]; try discriminate.
  destruct (inp s') as [|x l] eqn:I; [discriminate|]. injection H as _ <- _.
  exists t1, s', v. split; [reflexivity|]. split; [symmetry; exact I|]. split; [discriminate|]. exact A.
Qed.

(** the emitted events with their pull counts, as a function of the trace: an event yielded when the processor
    had received [nrd] bytes is reported with min(len, nrd + 1) bytes pulled - one byte of look-ahead *)
Fixpoint stamps (is_stream : bool) (len : Z) (tr : list action) (nrd : Z) : list oevent :=
  match tr with
  | [] => []
  | Rd _ :: r => stamps is_stream len r (nrd + 1)
  | Ev e :: r =>
      if is_stream && (len <=? nrd) && is_root_event e then []
      else (Ev e, Z.min len (nrd + 1)) :: stamps is_stream len r nrd
  | Wn w :: r => (Wn w, Z.min len (nrd + 1)) :: stamps is_stream len r nrd
  end.

Lemma pump_go_stamps is_stream len tr ps ps' stopped :
  pump_go is_stream len tr ps = (ps', stopped) ->
  rev (ps_out ps') = rev (ps_out ps) ++ stamps is_stream len tr (ps_nrd ps).
Proof.
  revert ps. induction tr as [|a tr IH]; intros ps H; cbn [pump_go stamps] in *.
  - injection H as <- _. rewrite app_nil_r. reflexivity.
  - destruct a as [b|e|w].
    + rewrite (IH _ H). reflexivity.
    + destruct (is_stream && (len <=? ps_nrd ps) && is_root_event e).
      * injection H as <- _. cbn [ps_out]. rewrite app_nil_r. reflexivity.
      * rewrite (IH _ H). cbn [ps_out ps_nrd rev]. rewrite <- app_assoc. reflexivity.
    + rewrite (IH _ H). cbn [ps_out ps_nrd rev]. rewrite <- app_assoc. reflexivity.
Qed.

(** strict mode: what is emitted is exactly [stamps] of the processor's trace *)
Theorem strict_events_are_stamps T r input evs o :
  decode T true r input = (evs, o) ->
  evs = stamps (is_stream_root r) (Z.of_nat (List.length input)) (fst (fst (dec_root T true r (init_st input)))) 0.
Proof.
  unfold decode, pump. intros H.
  destruct (dec_root T true r (init_st input)) as [[tr s'] p] eqn:E. cbn [fst].
  destruct (pump_go _ _ tr _) as [ps stp] eqn:G.
  pose proof (pump_go_stamps _ _ _ _ _ _ G) as O. cbn [ps_out ps_nrd rev app] in O.
  destruct stp; [injection H as <- _; exact O|].
  destruct p as [v|e| |k|]; try (injection H as <- _; exact O).
  destruct (skipZ input (ps_nrd ps)); injection H as <- _; exact O.
Qed.
