(** Completeness, part 2: a COMPLETED strict run of a structure type is a reading of the specification.
    If strict decoding of type [t] completes from [s] having read [c] (inp s = c ++ inp s'), the specification reads
    a value from [inp s] leaving [inp s'], whose items are the trace's events, all leaves valid, every size-prefixed
    region exactly as long as its size field says. *)
From Coq Require Import ZArith List String Bool Lia ZifyBool.
From TV Require Import Layout.Types Base.Bytes Model.Monad Model.Constraints Model.Ints Model.Decoder Model.Message Model.Pump
  Spec.Value Spec.Message Proofs.Closure Proofs.LowClosure Proofs.Account Proofs.Incremental Proofs.Agree
  Proofs.Sim1 Proofs.Sim2 Proofs.Sim3 Proofs.Sim4 Proofs.Sim7 Proofs.Sim8 Proofs.Sim12 Proofs.Safe1 Proofs.Safe2 Proofs.Safe3 Proofs.Comp1.
Import ListNotations.
Open Scope list_scope.
Open Scope Z_scope.

(** ---- primitives *)
Lemma dec_prim_complete p pa s tr s' a : wf_st s -> 0 <= pwidth p -> dec_prim true p pa s = (tr, s', Ok a) ->
  exists v z, sp_prim p pa (inp s) = Some (v, z, inp s') /\ a = Some (VInt_ (pname p) z) /\ v = SPrim pa p z /\ valid p z = true /\
              shape tr (items_of v) /\ chb s tr s'.
Proof.
  intros W Hw E.
  destruct (oki_of_r2 _ _ _ _ (dec_prim_done p pa s W Hw) _ _ _ E) as (C & bs & -> & Hbt & Hbl & Hi).
  pose proof (chb_of_acc _ _ _ _ _ _ (L_dec_prim (@accounts) accounts_lclosed true p pa) E C) as Cb.
  (* validity and the exact trace *)
  unfold dec_prim in E. destruct (bind_inv _ _ _ _ _ _ _ _ E) as (tr1 & s1 & o1 & E1 & R1).
  destruct o1 as [u|e| |k|]; try (destruct R1 as [R1 _]; discriminate). destruct R1 as (tr2 & E2 & ->).
  destruct (oki_of_r2 _ _ _ _ (bytes_parsed_done pa (pwidth p) s W) _ _ _ E1) as (-> & _).
  destruct (bind_inv _ _ _ _ _ _ _ _ E2) as (tr3 & s3 & o3 & E3 & R3).
  destruct o3 as [bs'|e| |k|]; try (destruct R3 as [R3 _]; discriminate). destruct R3 as (tr4 & E4 & ->). cbv zeta in E4.
  destruct (readn_done _ _ _ _ _ E3) as (-> & L3 & _).
  cbn [app] in Hbt. rewrite bytes_of_app, bytes_of_map_Rd in Hbt.
  destruct (valid p (from_bytes (psigned p) bs')) eqn:Vd; [|discriminate].
  unfold bind, emit, ret in E4. injection E4 as <- _ Hv.
  cbn [bytes_of] in Hbt. rewrite app_nil_r in Hbt. subst bs'.
  exists (SPrim pa p (from_bytes (psigned p) bs)), (from_bytes (psigned p) bs).
  split; [rewrite Hi; apply sp_prim_here; exact Hbl|]. split; [reflexivity|]. split; [reflexivity|]. split; [exact Vd|].
  split; [|exact Cb]. cbn [items_of app].
  replace (map Rd bs ++ [Ev (mkEvent pa (TyN (pname p)) (Some (from_bytes (psigned p) bs)))])
    with (map Rd bs ++ Ev (item_event (IPrim pa p (from_bytes (psigned p) bs))) :: vwarn pa p (from_bytes (psigned p) bs) ++ [])
    by (unfold vwarn; rewrite Vd; reflexivity).
  apply sh_prim; [unfold blen in Hbl; lia|exact Hw|constructor].
Qed.

(** ---- the anatomy of a completed size-prefixed region *)
Lemma close_anatomy A (payload : M A) (g : A -> option value) cid z s4 V tr s' a :
  wf_st s4 -> view s4 = V ++ [(cid, Some z, 0)] -> ~ In cid (ids_of V) ->
  okinv payload s4 (fun _ tr5 s5 => chb s4 tr5 s5) ->
  bind payload (fun bv => bind (assert_done true cid) (fun _ => ret (g bv))) s4 = (tr, s', Ok a) ->
  exists bv s5, payload s4 = (tr, s5, Ok bv) /\ a = g bv /\ blen (bytes_of tr) = z /\ inp s' = inp s5.
Proof.
  intros W4 V4 Hn Hp E.
  destruct (bind_inv _ _ _ _ _ _ _ _ E) as (tr5 & s5 & o5 & E5 & R5).
  destruct o5 as [bv|e| |k|]; try (destruct R5 as [R5 _]; discriminate). destruct R5 as (tr6 & E6 & ->).
  destruct (Hp _ _ _ E5) as [(V5 & W5 & F5) B5].
  rewrite V4, bump_app in V5. cbn [bump map bump_entry] in V5. rewrite Z.add_0_l in V5.
  destruct (bind_inv _ _ _ _ _ _ _ _ E6) as (tr7 & s7 & o7 & E7 & R7).
  destruct o7 as [u|e| |k|]; try (destruct R7 as [R7 _]; discriminate). destruct R7 as (tr8 & E8 & ->).
  injection E8 as <- <- <-.
  destruct (oki_of_r2 _ _ _ _ (assert_done_done cid z (blen (bytes_of tr5)) _ s5 W5 V5 ltac:(rewrite ids_bump; exact Hn)) _ _ _ E7)
    as (-> & Hk & I7 & _).
  exists bv, s5. rewrite !app_nil_r. split; [exact E5|]. split; [reflexivity|]. split; [exact Hk|exact I7].
Qed.

Lemma tpm2b_anatomy (szp : prim) (size_path : path) (k : option value -> nat -> M (option value)) s tr s' a :
  psigned szp = false -> 0 <= pwidth szp -> wf_st s -> Forall isbyte (inp s) ->
  bind (dec_prim true szp size_path) (fun szv =>
    let size := match as_int szv with Some z => z | None => 0 end in
    bind new_sc (fun cid =>
    bind (set_constraint true cid size_path size) (fun _ =>
    bind (append_lst cid) (fun _ => k szv cid)))) s = (tr, s', Ok a) ->
  exists z tr1 s1 cid s4 trk V,
    sp_prim szp size_path (inp s) = Some (SPrim size_path szp z, z, inp s1) /\ valid szp z = true /\
    shape tr1 (items_of (SPrim size_path szp z)) /\ 0 <= z /\
    k (Some (VInt_ (pname szp) z)) cid s4 = (trk, s', Ok a) /\ tr = tr1 ++ trk /\ inp s4 = inp s1 /\ wf_st s4 /\ Forall isbyte (inp s4) /\
    view s4 = V ++ [(cid, Some z, 0)] /\ ~ In cid (ids_of V).
Proof.
  intros Hu Hw W Hb E.
  destruct (bind_inv _ _ _ _ _ _ _ _ E) as (tr1 & s1 & o1 & E1 & R1).
  destruct o1 as [szv|e| |kk|]; try (destruct R1 as [R1 _]; discriminate). destruct R1 as (tr2 & E2 & ->).
  destruct (dec_prim_complete szp size_path s tr1 s1 szv W Hw E1) as (v & z & Hsp & -> & -> & Vd & Sh & [(V1 & W1 & F1) B1]).
  assert (Hz : 0 <= z).
  { destruct (sp_prim_some _ _ _ _ _ _ Hsp) as (h & Hi & _ & _ & -> & _). rewrite Hu. apply unsigned_nonneg.
    rewrite Hi in Hb. apply Forall_app in Hb as [Hb _]. exact Hb. }
  cbn [as_int] in E2. cbv zeta in E2.
  destruct (new_sc_spec s1 W1) as (s2 & En & I2 & L2 & V2 & W2 & Len2 & G2 & Fr2).
  set (cid := List.length (store s1)) in *.
  destruct (bind_inv _ _ _ _ _ _ _ _ E2) as (tr3 & s2' & o3 & E3 & R3). rewrite En in E3. injection E3 as <- <- <-.
  destruct R3 as (tr4 & E4 & ->).
  assert (Hc2 : (cid < List.length (store s2))%nat) by lia.
  destruct (bind_inv _ _ _ _ _ _ _ _ E4) as (tr5 & s3 & o5 & E5 & R5).
  destruct o5 as [u|e| |kk|]; try (destruct R5 as [R5 _]; discriminate). destruct R5 as (tr6 & E6 & ->).
  destruct (oki_of_r2 _ _ _ _ (set_constraint_done cid size_path z s2 Hz Hc2) _ _ _ E5) as (-> & ->).
  destruct (announced_facts cid size_path z s2 W2 Hc2) as (V3 & W3 & Len3 & G3 & G3' & Fr3).
  set (s3 := announced cid size_path z s2) in *.
  assert (Fresh : ~ In cid (ids_of (view s2))) by (rewrite V2; apply fresh_not_in_view, W1).
  rewrite (map_set_entry_fresh cid z _ Fresh) in V3.
  assert (NotListed : ~ In cid (lst s3)).
  { cbn [s3 announced lst]. rewrite L2. intros Hx. destruct W1 as [_ AL]. rewrite Forall_forall in AL. specialize (AL _ Hx). unfold cid in AL. lia. }
  destruct (append_facts cid s3 W3 NotListed ltac:(lia) ltac:(rewrite G3, G2; reflexivity)) as (V4 & W4 & Fr4).
  set (s4 := mkSt (inp s3) (store s3) (lst s3 ++ [cid])) in *.
  destruct (bind_inv _ _ _ _ _ _ _ _ E6) as (tr7 & s4' & o7 & E7 & R7). injection E7 as <- <- <-.
  destruct R7 as (tr8 & E8 & ->). fold s4 in E8.
  assert (Ent : entry_of s3 cid = (cid, Some z, 0)) by (unfold entry_of; rewrite G3, G2; reflexivity).
  rewrite Ent, V3, V2 in V4.
  exists z, tr1, s1, cid, s4, tr8, (view s1).
  split; [exact Hsp|]. split; [exact Vd|]. split; [exact Sh|]. split; [exact Hz|]. split; [exact E8|].
  split; [reflexivity|]. split; [cbn [s4 s3 announced inp]; exact I2|]. split; [exact W4|].
  split; [cbn [s4 s3 announced inp]; rewrite I2; apply B1, Hb|]. split; [exact V4|].
  intros Hx. apply Fresh. rewrite V2. exact Hx.
Qed.

(** ---- lists *)
Definition reads1 (t : ty) : bool :=
  match t with
  | TPrim p => 1 <=? pwidth p
  | TStruct _ _ (FPlain _ t1 _) => first_reads t1
  | TTpm2bList _ _ _ szp _ => 1 <=? pwidth szp
  | TTpm2bStruct _ _ _ szp _ => 1 <=? pwidth szp
  | _ => false
  end.

(** counted lists (fields and union members) have elements that take at least one byte *)
Fixpoint lp_ty (t : ty) : bool :=
  match t with
  | TPrim _ => true
  | TStruct _ _ fs => lp_fields fs
  | TTpm2bList _ _ _ _ e => lp_ty e
  | TTpm2bStruct _ _ _ _ i => lp_ty i
  | TUnion _ ar => lp_arms ar
  end
with lp_fields (fs : fields) : bool :=
  match fs with
  | FNil => true
  | FPlain _ t r => lp_ty t && lp_fields r
  | FList _ e r => reads1 e && lp_ty e && lp_fields r
  | FUnion _ _ u r => lp_ty u && lp_fields r
  end
with lp_arms (ar : arms) : bool :=
  match ar with
  | ANil => true
  | ACons _ _ p r =>
      match p with
      | PNone => true
      | PTy t => lp_ty t
      | PList e _ => reads1 e && lp_ty e
      end && lp_arms r
  end.

Section Comp.
  Variable T : tables.

  Lemma reads1_ok e p s tr s' a : reads1 e = true -> dec_ty T true e p None false s = (tr, s', Ok a) -> 1 <= blen (bytes_of tr).
  Proof.
    intros Hr E. destruct e as [pp|name isp [|n t1 r| |]|name szf buf szp el|name szf buf szp inner|]; try discriminate; cbn [reads1] in Hr.
    - apply (first_reads_ok T (TPrim pp) p s Hr _ _ _ E).
    - revert E. rewrite dec_ty_struct. cbn [andb]. cbv zeta. intros E.
      refine (reads_after _ _ _ _ _ 1 _ _ _ _ E). intros _ s1. apply reads_bind. rewrite dec_fields_plain. apply reads_bind.
      apply first_reads_ok. exact Hr.
    - apply (first_reads_ok T (TTpm2bList name szf buf szp el) p s Hr _ _ _ E).
    - apply (first_reads_ok T (TTpm2bStruct name szf buf szp inner) p s Hr _ _ _ E).
  Qed.

  Definition K_ty (t : ty) : Prop := safe_ty t = true -> lp_ty t = true -> forall pa sel s tr s' a, wf_st s -> Forall isbyte (inp s) ->
    dec_ty T true t pa sel false s = (tr, s', Ok a) ->
    exists v, sp_ty T t pa sel false (inp s) = Some (v, inp s') /\ shape tr (items_of v) /\ all_valid v = true /\ val_ok v a.

  (** the elements of a list: [n] iterations *)
  Lemma elems_complete e pa : K_ty e -> safe_ty e = true -> lp_ty e = true ->
    forall n i acc s tr s' r, wf_st s -> Forall isbyte (inp s) ->
    iter n (fun st_ : Z * list (option value) => bind (dec_ty T true e (pindex pa (fst st_)) None false) (fun v => ret (fst st_ + 1, v :: snd st_))) (i, acc) s = (tr, s', Ok r) ->
    exists vs, sp_elems (fun p b => sp_ty T e p None false b) pa n i (inp s) = Some (vs, inp s') /\
               shape tr (flat_map items_of vs) /\ forallb all_valid vs = true /\ chb s tr s'.
  Proof.
    intros IH He Hl. induction n as [|n IHn]; intros i acc s tr s' r W Hb E; cbn [iter sp_elems] in *.
    - injection E as <- <- _. exists []. split; [reflexivity|]. split; [constructor|]. split; [reflexivity|apply chb_nil, W].
    - destruct (bind_inv _ _ _ _ _ _ _ _ E) as (tr1 & s1 & o1 & E1 & R1).
      destruct o1 as [[i1 acc1]|ee| |kk|]; try (destruct R1 as [R1 _]; discriminate). destruct R1 as (tr2 & E2 & ->).
      destruct (bind_inv _ _ _ _ _ _ _ _ E1) as (tr3 & s3 & o3 & E3 & R3). cbn [fst snd] in *.
      destruct o3 as [v|ee| |kk|]; try (destruct R3 as [R3 _]; discriminate). destruct R3 as (tr4 & E4 & ->).
      injection E4 as Htr4 Hs1 Hi1 Hacc1. subst tr4 s3 i1 acc1.
      destruct (IH He Hl (pindex pa i) None s tr3 s1 v W Hb E3) as (sv & Hs & Sh & AV & _).
      pose proof (proj1 (inv_all T) e He (pindex pa i) None s W Hb _ _ _ E3) as [C1 _].
      destruct (IHn (i + 1) (v :: acc) s1 tr2 s' r (chb_wf _ _ _ C1) (proj2 C1 Hb) E2) as (vs & Hvs & Shs & AVs & C2).
      exists (sv :: vs). rewrite Hs. unfold chk.
      pose proof (acc_ty' T e (pindex pa i) None false s _ _ _ E3) as Ac. apply (f_equal (@List.length Z)) in Ac. rewrite app_length in Ac.
      replace (Nat.leb (List.length (inp s1)) (List.length (inp s))) with true by (symmetry; apply Nat.leb_le; lia).
      rewrite Hvs. split; [reflexivity|]. rewrite app_nil_r. split; [cbn [flat_map]; apply shape_app; assumption|].
      split; [cbn [forallb]; rewrite AV, AVs; reflexivity|eapply chb_trans; eassumption].
  Qed.

  Lemma elems_progress e pa : reads1 e = true ->
    forall n i acc s tr s' r,
    iter n (fun st_ : Z * list (option value) => bind (dec_ty T true e (pindex pa (fst st_)) None false) (fun v => ret (fst st_ + 1, v :: snd st_))) (i, acc) s = (tr, s', Ok r) ->
    Z.of_nat n <= blen (bytes_of tr).
  Proof.
    intros Hr. induction n as [|n IHn]; intros i acc s tr s' r E; cbn [iter] in *; [unfold blen; lia|].
    destruct (bind_inv _ _ _ _ _ _ _ _ E) as (tr1 & s1 & o1 & E1 & R1).
    destruct o1 as [[i1 acc1]|ee| |kk|]; try (destruct R1 as [R1 _]; discriminate). destruct R1 as (tr2 & E2 & ->).
    destruct (bind_inv _ _ _ _ _ _ _ _ E1) as (tr3 & s3 & o3 & E3 & R3). cbn [fst snd] in *.
    destruct o3 as [v|ee| |kk|]; try (destruct R3 as [R3 _]; discriminate). destruct R3 as (tr4 & E4 & ->).
    injection E4 as <- _ _ _. pose proof (reads1_ok e _ _ _ _ _ Hr E3) as H1. pose proof (IHn _ _ _ _ _ _ E2) as H2.
    rewrite !bytes_of_app. unfold blen in *. rewrite !app_length. cbn [bytes_of List.length]. lia.
  Qed.

  (** a counted list whose count does not exceed the bytes at hand *)
  Lemma array_complete e lid pa count s tr s' a : K_ty e -> safe_ty e = true -> lp_ty e = true -> wf_st s -> Forall isbyte (inp s) ->
    count <= blen (inp s) ->
    dec_array lid pa count (fun p => dec_ty T true e p None false) s = (tr, s', Ok a) ->
    exists v, sp_counted (fun p b => sp_ty T e p None false b) lid pa count (inp s) = Some (v, inp s') /\
              shape tr (items_of v) /\ all_valid v = true /\ as_typed_int a = None /\ chb s tr s'.
  Proof.
    intros IH He Hl W Hb Hc E. unfold dec_array in E.
    destruct (bind_inv _ _ _ _ _ _ _ _ E) as (tr1 & s1 & o1 & E1 & R1). injection E1 as <- <- <-. destruct R1 as (tr2 & E2 & ->).
    destruct (bind_inv _ _ _ _ _ _ _ _ E2) as (tr3 & s3 & o3 & E3 & R3).
    destruct o3 as [r|ee| |kk|]; try (destruct R3 as [R3 _]; discriminate). destruct R3 as (tr4 & E4 & ->). injection E4 as <- <- <-.
    unfold sp_counted. replace (Z.of_nat (List.length (inp s)) <? count) with false by (unfold blen in Hc; lia).
    assert (Hloop : exists vs, sp_elems (fun p b => sp_ty T e p None false b) pa (Z.to_nat count) 0 (inp s) = Some (vs, inp s3) /\
                               shape tr3 (flat_map items_of vs) /\ forallb all_valid vs = true /\ chb s tr3 s3).
    { destruct count as [|q|q]; cbn [repZ Z.to_nat] in E3 |- *.
      - injection E3 as <- <- _. exists []. split; [reflexivity|]. split; [constructor|]. split; [reflexivity|apply chb_nil, W].
      - rewrite (rep_iter _ _ q (0, []) s) in E3. apply (elems_complete e pa IH He Hl _ _ _ _ _ _ _ W Hb E3).
      - injection E3 as <- <- _. exists []. split; [reflexivity|]. split; [constructor|]. split; [reflexivity|apply chb_nil, W]. }
    destruct Hloop as (vs & Hvs & Sh & AV & C). rewrite Hvs. exists (SNode pa lid vs).
    split; [reflexivity|]. rewrite app_nil_r. split; [cbn [items_of]; apply (sh_node pa lid); exact Sh|]. split; [exact AV|]. split; [reflexivity|].
    eapply (chb_trans s [sev pa lid] s); [apply chb_ev, W|exact C].
  Qed.

  Lemma array_count_le e lid pa count s tr s' a : reads1 e = true ->
    dec_array lid pa count (fun p => dec_ty T true e p None false) s = (tr, s', Ok a) -> count <= blen (inp s).
  Proof.
    intros Hr E. pose proof (acc_array T lid pa count e s _ _ _ E) as Ac. unfold dec_array in E.
    destruct (bind_inv _ _ _ _ _ _ _ _ E) as (tr1 & s1 & o1 & E1 & R1). injection E1 as <- <- <-. destruct R1 as (tr2 & E2 & ->).
    destruct (bind_inv _ _ _ _ _ _ _ _ E2) as (tr3 & s3 & o3 & E3 & R3).
    destruct o3 as [r|ee| |kk|]; try (destruct R3 as [R3 _]; discriminate). destruct R3 as (tr4 & E4 & ->). injection E4 as <- _ _.
    apply (f_equal (@List.length Z)) in Ac. rewrite app_length in Ac. unfold sev in Ac. cbn [app bytes_of] in Ac. rewrite bytes_of_app, app_length in Ac.
    destruct count as [|q|q]; cbn [repZ] in E3; try (unfold blen; lia).
    rewrite (rep_iter _ _ q (0, []) s) in E3. pose proof (elems_progress e pa Hr _ _ _ _ _ _ _ E3) as Hp.
    unfold blen in *. lia.
  Qed.
End Comp.

Section CompAll.
  Variable T : tables.

  Definition K_fields (fs : fields) : Prop := forall prev, safe_fields fs prev = true -> lp_fields fs = true ->
    forall pa rs rd s tr s' vals, R rs rd -> relp prev rd -> wf_st s -> Forall isbyte (inp s) ->
    dec_fields T true fs pa rd s = (tr, s', Ok vals) ->
    exists kids, sp_fields T fs pa rs (inp s) = Some (kids, inp s') /\ shape tr (flat_map items_of kids) /\ forallb all_valid kids = true /\
                 R (rev (map kid_info kids) ++ rs) vals.
  Definition K_armp (p : armp) : Prop := match p with PNone => True | PTy t => K_ty T t | PList e _ => K_ty T e end.
  Definition armp_lp (p : armp) : bool := match p with PNone => true | PTy t => lp_ty t | PList e _ => reads1 e && lp_ty e end.
  Definition K_arms (ar : arms) : Prop := forall uname pa target p s tr s' a, arm_at ar target = Some p -> armp_safe p = true -> armp_lp p = true ->
    wf_st s -> Forall isbyte (inp s) -> dec_arms T true ar uname pa target s = (tr, s', Ok a) ->
    exists kids, sp_arms T ar pa target (inp s) = Some (kids, inp s') /\ shape tr (flat_map items_of kids) /\ forallb all_valid kids = true.

  Lemma arm_at_lp ar n p : lp_arms ar = true -> arm_at ar n = Some p -> armp_lp p = true.
  Proof.
    induction ar as [|n0 k p0 r IH]; cbn [lp_arms arm_at]; [discriminate|]. intros H. apply andb_prop in H as [H1 H2].
    destruct (String.eqb n0 n); [intros [= <-]; exact H1|apply IH, H2].
  Qed.

  Lemma chk_ok {A} bs (v : A) r : (List.length r <= List.length bs)%nat -> chk bs (Some (v, r)) = Some (v, r).
  Proof. intros H. unfold chk. replace (Nat.leb (List.length r) (List.length bs)) with true by (symmetry; apply Nat.leb_le; exact H). reflexivity. Qed.

  Lemma acc_len A (m : M A) s tr s' o : accounts m -> m s = (tr, s', o) -> (List.length (inp s') <= List.length (inp s))%nat.
  Proof. intros Ha E. pose proof (Ha _ _ _ _ E) as H. apply (f_equal (@List.length Z)) in H. rewrite app_length in H. lia. Qed.

  Lemma R_lookup_rev rs rd n v tz : R rs rd -> lookupS n rd = Some v -> as_typed_int v = Some tz -> lookupS n rs = Some (Some tz).
  Proof.
    induction 1 as [|[n1 pv] [n2 v2] rs rd [Hn Hv] HR IH]; cbn [lookupS]; [discriminate|].
    cbn [fst snd] in Hn, Hv. subst n2. destruct (String.eqb n n1); [|exact IH].
    intros [= ->] Ht. destruct pv as [[tn z]|]; [rewrite Hv in Ht; cbn in Ht; congruence|congruence].
  Qed.

  (** the region of a TPM2B with a payload decoded by [payload]: the specification's reading of the payload region *)
  Theorem comp_all : (forall t, K_ty T t) /\ (forall fs, K_fields fs) /\ (forall ar, K_arms ar) /\ (forall p, K_armp p).
  Proof.
    apply ty_mutind.
    - (* TPrim *)
      intros p Hs _ pa sel s tr s' a W Hb E. cbn [safe_ty] in Hs. change (dec_ty T true (TPrim p) pa sel false) with (dec_prim true p pa) in E.
      destruct (dec_prim_complete p pa s tr s' a W ltac:(lia) E) as (v & z & Hsp & -> & -> & Vd & Sh & _).
      exists (SPrim pa p z). rewrite sp_ty_prim, Hsp. split; [reflexivity|]. split; [exact Sh|]. split; [exact Vd|reflexivity].
    - (* TStruct *)
      intros name isp fs IH Hs Hl pa sel s tr s' a W Hb E. cbn [safe_ty lp_ty] in Hs, Hl. rewrite dec_ty_struct in E. cbn [andb] in E. cbv zeta in E.
      destruct (bind_inv _ _ _ _ _ _ _ _ E) as (tr1 & s1 & o1 & E1 & R1). injection E1 as <- <- <-. destruct R1 as (tr2 & E2 & ->).
      destruct (bind_inv _ _ _ _ _ _ _ _ E2) as (tr3 & s3 & o3 & E3 & R3).
      destruct o3 as [vals|ee| |kk|]; try (destruct R3 as [R3 _]; discriminate). destruct R3 as (tr4 & E4 & ->). injection E4 as <- <- <-.
      destruct (IH [] Hs Hl pa [] [] s tr3 s3 vals ltac:(constructor) ltac:(constructor) W Hb E3) as (kids & Hk & Sh & AV & _).
      exists (SNode pa (TyN name) kids). rewrite sp_ty_struct. cbn [andb]. rewrite Hk. split; [reflexivity|]. rewrite app_nil_r.
      split; [cbn [items_of]; apply (sh_node pa (TyN name)); exact Sh|]. split; [exact AV|reflexivity].
    - (* TTpm2bList *)
      intros name szf buf szp e IH Hs Hl pa sel s tr s' a W Hb E. cbn [safe_ty lp_ty] in Hs, Hl.
      apply andb_prop in Hs as [Hs He]. apply andb_prop in Hs as [Hu Hn]. apply andb_prop in Hu as [Hu Hw].
      rewrite dec_ty_tpm2b_list in E. unfold dec_tpm2b_list in E.
      destruct (bind_inv _ _ _ _ _ _ _ _ E) as (tr1 & s1 & o1 & E1 & R1). injection E1 as <- <- <-. destruct R1 as (tr2 & E2 & ->).
      destruct (tpm2b_anatomy szp (pchild pa szf)
                  (fun szv cid => bind (dec_array (list_id e) (pchild pa buf) (match as_int szv with Some z => z | None => 0 end) (fun p => dec_ty T true e p None false))
                                    (fun bv => bind (assert_done true cid) (fun _ => ret (Some (VStruct_ (TyN name) [(szf, szv); (buf, bv)])))))
                  s tr2 s' a ltac:(destruct (psigned szp); [discriminate|reflexivity]) ltac:(lia) W Hb E2)
        as (z & tr3 & s3 & cid & s4 & trk & V & Hsp & Vd & Sh3 & Hz & Ek & -> & I4 & W4 & B4 & V4 & Hn4).
      cbn [as_int] in Ek.
      destruct (close_anatomy _ _ (fun bv => Some (VStruct_ (TyN name) [(szf, Some (VInt_ (pname szp) z)); (buf, bv)])) cid z s4 V trk s' a W4 V4 Hn4
                  (array_inv T _ _ _ e s4 (proj1 (inv_all T) e) He W4 B4) Ek) as (bv & s5 & E5 & -> & Hk & I5).
      (* the payload read exactly the region: run it on the region alone *)
      pose proof (acc_array T (list_id e) (pchild pa buf) z e s4 _ _ _ E5) as Ac.
      set (region := bytes_of trk) in *.
      assert (Es4 : s4 = ext (mkSt region (store s4) (lst s4)) (inp s5)).
      { unfold ext. cbn [inp store lst]. rewrite <- Ac. destruct s4; reflexivity. }
      rewrite Es4 in E5.
      destruct (proj2 (P_dec_array true (@restr) (lclosed_closed _ restr_lclosed true) (list_id e) (pchild pa buf) z (fun p => dec_ty T true e p None false)
                         (fun p => restr_dec_ty T true e p None false)) _ _ _ _ _ E5 ltac:(cbn [inp]; unfold region; lia) ltac:(discriminate))
        as (s5r & Hs5 & E5r).
      assert (I5r : inp s5r = []).
      { apply (f_equal inp) in Hs5. unfold ext in Hs5. cbn [inp] in Hs5. rewrite <- (app_nil_l (inp s5)) in Hs5 at 1. apply app_inv_tail in Hs5. symmetry. exact Hs5. }
      destruct (array_complete T e (list_id e) (pchild pa buf) z (mkSt region (store s4) (lst s4)) trk s5r bv (IH) He Hl W4 ltac:(cbn [inp]; rewrite Ac in B4; apply Forall_app in B4 as [B4 _]; exact B4)
                  ltac:(cbn [inp]; unfold blen in *; lia) E5r)
        as (lv & Hlv & Shl & AVl & Hat & _).
      cbn [inp] in Hlv. rewrite I5r in Hlv.
      exists (SNode pa (TyN name) [SPrim (pchild pa szf) szp z; lv]). rewrite sp_ty_tpm2b_list. unfold sp_tpm2b_list. rewrite Hsp.
      assert (Hsplit : split_at z (inp s3) = Some (region, inp s5)) by (rewrite <- I4, Ac; apply split_at_exact; exact Hk).
      rewrite Hsplit, Hlv. split; [rewrite I5; reflexivity|]. rewrite ?app_nil_l. cbn [app].
      split; [cbn [items_of flat_map]; rewrite app_nil_r; apply (sh_node pa (TyN name)); apply shape_app; assumption|].
      split; [cbn [all_valid forallb]; rewrite Vd, AVl; reflexivity|reflexivity].
    - (* TTpm2bStruct *)
      intros name szf buf szp inner IH Hs Hl pa sel s tr s' a W Hb E. cbn [safe_ty lp_ty] in Hs, Hl.
      apply andb_prop in Hs as [Hs He]. apply andb_prop in Hs as [Hu Hn]. apply andb_prop in Hu as [Hu Hw].
      rewrite dec_ty_tpm2b_struct in E.
      destruct (bind_inv _ _ _ _ _ _ _ _ E) as (tr1 & s1 & o1 & E1 & R1). injection E1 as <- <- <-. destruct R1 as (tr2 & E2 & ->). cbv zeta in E2.
      destruct (tpm2b_anatomy szp (pchild pa szf)
                  (fun szv cid => if (match as_int szv with Some z => z | None => 0 end) =? 0
                        then bind (emit (sev (pchild pa buf) (ty_id inner))) (fun _ => bind (assert_done true cid) (fun _ => ret (Some (VStruct_ (TyN name) [(szf, szv); (buf, None)]))))
                        else catch_exceeded true [cid]
                               (bind (dec_ty T true inner (pchild pa buf) None false) (fun bv => bind (assert_done true cid) (fun _ => ret (Some (VStruct_ (TyN name) [(szf, szv); (buf, bv)])))))
                               (ret None))
                  s tr2 s' a ltac:(destruct (psigned szp); [discriminate|reflexivity]) ltac:(lia) W Hb E2)
        as (z & tr3 & s3 & cid & s4 & trk & V & Hsp & Vd & Sh3 & Hz & Ek & -> & I4 & W4 & B4 & V4 & Hn4).
      cbn [as_int] in Ek. rewrite sp_ty_tpm2b_struct, Hsp.
      destruct (z =? 0) eqn:Ez.
      + (* no payload *)
        destruct (close_anatomy _ (emit (sev (pchild pa buf) (ty_id inner))) (fun _ => Some (VStruct_ (TyN name) [(szf, Some (VInt_ (pname szp) z)); (buf, None)])) cid z s4 V trk s' a W4 V4 Hn4
                    ltac:(apply oki_emit; apply chb_ev, W4) Ek) as (bv & s5 & E5 & -> & Hk & I5).
        injection E5 as <- <- _.
        exists (SNode pa (TyN name) [SPrim (pchild pa szf) szp z; SNode (pchild pa buf) (ty_id inner) []]).
        split; [rewrite I5, I4; reflexivity|]. rewrite ?app_nil_l. cbn [app].
        split; [cbn [items_of flat_map app]; apply (sh_node pa (TyN name)); apply (shape_app _ [IPrim (pchild pa szf) szp z] _ [INode (pchild pa buf) (ty_id inner)]); [exact Sh3|apply (sh_node _ _ [] []); constructor]|].
        split; [cbn [all_valid forallb]; rewrite Vd; reflexivity|reflexivity].
      + rewrite catch_true in Ek.
        destruct (close_anatomy _ _ (fun bv => Some (VStruct_ (TyN name) [(szf, Some (VInt_ (pname szp) z)); (buf, bv)])) cid z s4 V trk s' a W4 V4 Hn4
                    ltac:(eapply oki_weaken; [|apply (proj1 (inv_all T) inner He (pchild pa buf) None s4 W4 B4)]; cbv beta; intros ? ? ? [C _]; exact C) Ek)
          as (bv & s5 & E5 & -> & Hk & I5).
        pose proof (acc_ty' T inner (pchild pa buf) None false s4 _ _ _ E5) as Ac.
        set (region := bytes_of trk) in *.
        assert (Es4 : s4 = ext (mkSt region (store s4) (lst s4)) (inp s5)).
        { unfold ext. cbn [inp store lst]. rewrite <- Ac. destruct s4; reflexivity. }
        rewrite Es4 in E5.
        destruct (proj2 (restr_dec_ty T true inner (pchild pa buf) None false) _ _ _ _ _ E5 ltac:(cbn [inp]; unfold region; lia) ltac:(discriminate)) as (s5r & Hs5 & E5r).
        assert (I5r : inp s5r = []).
        { apply (f_equal inp) in Hs5. unfold ext in Hs5. cbn [inp] in Hs5. rewrite <- (app_nil_l (inp s5)) in Hs5 at 1. apply app_inv_tail in Hs5. symmetry. exact Hs5. }
        destruct (IH He Hl (pchild pa buf) None (mkSt region (store s4) (lst s4)) trk s5r bv W4 ltac:(cbn [inp]; rewrite Ac in B4; apply Forall_app in B4 as [B4 _]; exact B4) E5r)
          as (iv & Hiv & Shi & AVi & Hvi).
        cbn [inp] in Hiv. rewrite I5r in Hiv.
        assert (Hsplit : split_at z (inp s3) = Some (region, inp s5)) by (rewrite <- I4, Ac; apply split_at_exact; exact Hk).
        rewrite Hsplit, Hiv.
        exists (SNode pa (TyN name) [SPrim (pchild pa szf) szp z; iv]). split; [rewrite I5; reflexivity|]. rewrite ?app_nil_l. cbn [app].
        split; [cbn [items_of flat_map]; rewrite app_nil_r; apply (sh_node pa (TyN name)); apply shape_app; assumption|].
        split; [cbn [all_valid forallb]; rewrite Vd, AVi; reflexivity|reflexivity].
    - (* TUnion *)
      intros name ar IH Hs Hl pa sel s tr s' a W Hb E. cbn [safe_ty lp_ty] in Hs, Hl. apply andb_prop in Hs as [Hd Ha]. rewrite dec_ty_union in E.
      destruct (bind_inv _ _ _ _ _ _ _ _ E) as (tr1 & s1 & o1 & E1 & R1). injection E1 as <- <- <-. destruct R1 as (tr2 & E2 & ->).
      rewrite sp_ty_union. destruct (select_arm ar sel) as [[n p]|] eqn:Es; [|destruct sel as [[tn z]|]; discriminate].
      destruct (select_arm_safe ar sel n p Hd Ha Es) as [Hat Hp].
      destruct (IH name pa n p s tr2 s' a Hat Hp (arm_at_lp ar n p Hl Hat) W Hb E2) as (kids & Hk & Sh & AV).
      exists (SNode pa (TyN name) kids). rewrite Hk. split; [reflexivity|].
      split; [cbn [items_of]; apply (sh_node pa (TyN name)); exact Sh|]. split; [exact AV|].
      (* the by-product of a union is a structure value *)
      clear - E2. revert E2. generalize n. induction ar as [|n0 k0 p0 r IHr]; intros n1 E2; [discriminate|].
      rewrite dec_arms_cons in E2. destruct (String.eqb n0 n1); [|apply (IHr _ E2)].
      destruct p0 as [|t0|e0 [c0|]]; try discriminate.
      + injection E2 as _ _ <-. reflexivity.
      + destruct (bind_inv _ _ _ _ _ _ _ _ E2) as (? & ? & o & _ & Rr). destruct o; try (destruct Rr as [Rr _]; discriminate).
        destruct Rr as (? & Er & _). injection Er as _ _ <-. reflexivity.
      + destruct (bind_inv _ _ _ _ _ _ _ _ E2) as (? & ? & o & _ & Rr). destruct o; try (destruct Rr as [Rr _]; discriminate).
        destruct Rr as (? & Er & _). injection Er as _ _ <-. reflexivity.
    - (* FNil *)
      intros prev _ _ pa rs rd s tr s' vals HR _ W _ E. cbn [dec_fields] in E. injection E as <- <- <-. exists [].
      split; [reflexivity|]. split; [constructor|]. split; [reflexivity|exact HR].
    - (* FPlain *)
      intros n t IHt r IHr prev Hs Hl pa rs rd s tr s' vals HR HP W Hb E. cbn [safe_fields lp_fields] in Hs, Hl.
      apply andb_prop in Hs as [Hs Hr]. apply andb_prop in Hs as [Hn Ht]. apply andb_prop in Hl as [Hlt Hlr].
      rewrite dec_fields_plain in E. destruct (bind_inv _ _ _ _ _ _ _ _ E) as (tr1 & s1 & o1 & E1 & R1).
      destruct o1 as [v|ee| |kk|]; try (destruct R1 as [R1 _]; discriminate). destruct R1 as (tr2 & E2 & ->).
      destruct (IHt Ht Hlt (pchild pa n) None s tr1 s1 v W Hb E1) as (sv & Hsv & Sh1 & AV1 & Hv).
      pose proof (proj1 (inv_all T) t Ht (pchild pa n) None s W Hb _ _ _ E1) as [C1 Hshape].
      destruct (IHr _ Hr Hlr pa ((n, match sv with SPrim _ p z => Some (pname p, z) | _ => None end) :: rs) ((n, v) :: rd) s1 tr2 s' vals) as (kids & Hk & Sh2 & AV2 & HR2).
      + constructor; [|exact HR]. split; [reflexivity|]. cbn [snd]. destruct sv; cbn [val_ok] in Hv; exact Hv.
      + constructor; [|exact HP]. cbn [fst snd]. split; [reflexivity|]. destruct t; try exact Logic.I. exact Hshape.
      + exact (chb_wf _ _ _ C1).
      + apply (proj2 C1), Hb.
      + exact E2.
      + exists (sv :: kids). rewrite sp_fields_plain, Hsv, (chk_ok _ _ _ (acc_len _ _ _ _ _ _ (acc_ty' T t _ None false) E1)). cbv zeta. rewrite Hk.
        split; [reflexivity|]. split; [cbn [flat_map]; apply shape_app; assumption|]. split; [cbn [forallb]; rewrite AV1, AV2; reflexivity|].
        apply R_snoc_kid. rewrite (kid_info_at sv pa n (sp_ty_path T _ _ _ _ _ _ _ Hsv)). exact HR2.
    - (* FList *)
      intros n e IHe r IHr prev Hs Hl pa rs rd s tr s' vals HR HP W Hb E. cbn [safe_fields lp_fields] in Hs, Hl.
      destruct prev as [|[cn [p0|]] prev']; try discriminate.
      apply andb_prop in Hs as [Hs Hr]. apply andb_prop in Hs as [Hn He]. apply andb_prop in Hl as [Hl Hlr]. apply andb_prop in Hl as [Hre Hle].
      inversion HP as [|a0 [cn' cv] ? rd' [Hcn Hcv] HP']; subst. cbn [fst snd] in *. destruct Hcv as [z ->].
      inversion HR as [|[cn2 pv] b0 rs' ? [Hcn2 Hpv] HR']; subst. cbn [fst snd] in *.
      assert (Hpv' : pv = Some (pname p0, z)) by (destruct pv as [[tn z']|]; [injection Hpv as -> ->; reflexivity|discriminate]). subst pv.
      rewrite dec_fields_list in E. cbn [last_nonlist is_list_value as_int] in E.
      destruct (bind_inv _ _ _ _ _ _ _ _ E) as (tr1 & s1 & o1 & E1 & R1).
      destruct o1 as [v|ee| |kk|]; try (destruct R1 as [R1 _]; discriminate). destruct R1 as (tr2 & E2 & ->).
      destruct (array_complete T e (list_id e) (pchild pa n) z s tr1 s1 v IHe He Hle W Hb (array_count_le T e _ _ _ _ _ _ _ Hre E1) E1)
        as (lv & Hlv & Sh1 & AV1 & Hat & C1).
      destruct (IHr _ Hr Hlr pa ((n, None) :: (cn2, Some (pname p0, z)) :: rs') ((n, v) :: (cn', Some (VInt_ (pname p0) z)) :: rd') s1 tr2 s' vals) as (kids & Hk & Sh2 & AV2 & HR2).
      + constructor; [split; [reflexivity|exact Hat]|exact HR].
      + constructor; [split; [reflexivity|exact Logic.I]|exact HP].
      + exact (chb_wf _ _ _ C1).
      + apply (proj2 C1), Hb.
      + exact E2.
      + exists (lv :: kids). rewrite sp_fields_list, Hlv, (chk_ok _ _ _ (acc_len _ _ _ _ _ _ (acc_array T _ _ _ e) E1)), Hk.
        split; [reflexivity|]. split; [cbn [flat_map]; apply shape_app; assumption|]. split; [cbn [forallb]; rewrite AV1, AV2; reflexivity|].
        apply R_snoc_kid.
        assert (Hki : kid_info lv = (n, None)).
        { unfold sp_counted in Hlv. destruct (_ <? z); [discriminate|]. destruct (sp_elems _ _ _ _ _) as [[es re]|]; [|discriminate]. injection Hlv as <- _.
          unfold kid_info. cbn [sv_path]. rewrite last_name_child. reflexivity. }
        rewrite Hki. exact HR2.
    - (* FUnion *)
      intros n seln u IHu r IHr prev Hs Hl pa rs rd s tr s' vals HR HP W Hb E. cbn [safe_fields lp_fields] in Hs, Hl.
      destruct (lookupS seln prev) as [[p0|]|] eqn:Lk; try discriminate.
      apply andb_prop in Hs as [Hs Hr]. apply andb_prop in Hs as [Hun Hu]. apply andb_prop in Hl as [Hlu Hlr].
      destruct (relp_lookup seln prev rd p0 HP Lk) as [z Lz].
      rewrite dec_fields_union, Lz in E. cbn [as_typed_int] in E.
      destruct (bind_inv _ _ _ _ _ _ _ _ E) as (tr1 & s1 & o1 & E1 & R1).
      destruct o1 as [v|ee| |kk|]; try (destruct R1 as [R1 _]; discriminate). destruct R1 as (tr2 & E2 & ->).
      destruct (IHu Hu Hlu (pchild pa n) (Some (pname p0, z)) s tr1 s1 v W Hb E1) as (sv & Hsv & Sh1 & AV1 & Hv).
      pose proof (proj1 (inv_all T) u Hu (pchild pa n) (Some (pname p0, z)) s W Hb _ _ _ E1) as [C1 _].
      destruct (IHr _ Hr Hlr pa ((n, match sv with SPrim _ p z => Some (pname p, z) | _ => None end) :: rs) ((n, v) :: rd) s1 tr2 s' vals) as (kids & Hk & Sh2 & AV2 & HR2).
      + constructor; [|exact HR]. split; [reflexivity|]. cbn [snd]. destruct sv; cbn [val_ok] in Hv; exact Hv.
      + constructor; [split; [reflexivity|exact Logic.I]|exact HP].
      + exact (chb_wf _ _ _ C1).
      + apply (proj2 C1), Hb.
      + exact E2.
      + exists (sv :: kids). rewrite sp_fields_union, (R_lookup_rev _ _ _ _ _ HR Lz eq_refl), Hsv, (chk_ok _ _ _ (acc_len _ _ _ _ _ _ (acc_ty' T u _ _ false) E1)). cbv zeta. rewrite Hk.
        split; [reflexivity|]. split; [cbn [flat_map]; apply shape_app; assumption|]. split; [cbn [forallb]; rewrite AV1, AV2; reflexivity|].
        apply R_snoc_kid. rewrite (kid_info_at sv pa n (sp_ty_path T _ _ _ _ _ _ _ Hsv)). exact HR2.
    - (* ANil *) intros uname pa target p s tr s' a H. discriminate.
    - (* ACons *)
      intros n key p IHp r IHr uname pa target p1 s tr s' a Hat Hp Hlp W Hb E. rewrite dec_arms_cons in E. rewrite sp_arms_cons. cbn [arm_at] in Hat.
      destruct (String.eqb n target); [|apply (IHr uname pa target p1 s tr s' a Hat Hp Hlp W Hb E)].
      injection Hat as ->. destruct p1 as [|t|e [cnt|]]; cbn [armp_safe armp_lp] in Hp, Hlp; try discriminate.
      + injection E as <- <- _. exists []. repeat split. constructor.
      + apply andb_prop in Hp as [Hn Ht].
        destruct (bind_inv _ _ _ _ _ _ _ _ E) as (tr1 & s1 & o1 & E1 & R1).
        destruct o1 as [v|ee| |kk|]; try (destruct R1 as [R1 _]; discriminate). destruct R1 as (tr2 & E2 & ->). injection E2 as <- <- _.
        destruct (IHp Ht Hlp (pchild pa n) None s tr1 s1 v W Hb E1) as (sv & Hsv & Sh1 & AV1 & _).
        exists [sv]. rewrite Hsv, (chk_ok _ _ _ (acc_len _ _ _ _ _ _ (acc_ty' T t _ None false) E1)). split; [reflexivity|].
        rewrite app_nil_r. cbn [flat_map forallb]. rewrite app_nil_r, AV1. split; [exact Sh1|reflexivity].
      + apply andb_prop in Hp as [Hn He]. apply andb_prop in Hlp as [Hre Hle].
        destruct (bind_inv _ _ _ _ _ _ _ _ E) as (tr1 & s1 & o1 & E1 & R1).
        destruct o1 as [v|ee| |kk|]; try (destruct R1 as [R1 _]; discriminate). destruct R1 as (tr2 & E2 & ->). injection E2 as <- <- _.
        destruct (array_complete T e (list_id e) (pchild pa n) cnt s tr1 s1 v IHp He Hle W Hb (array_count_le T e _ _ _ _ _ _ _ Hre E1) E1)
          as (lv & Hlv & Sh1 & AV1 & _).
        exists [lv]. rewrite Hlv, (chk_ok _ _ _ (acc_len _ _ _ _ _ _ (acc_array T _ _ _ e) E1)). split; [reflexivity|].
        rewrite app_nil_r. cbn [flat_map forallb]. rewrite app_nil_r, AV1. split; [exact Sh1|reflexivity].
    - exact Logic.I.
    - intros t IH. exact IH.
    - intros e IH n. exact IH.
  Qed.

  (** the by-product value of a completed structure decode against the specification's reading *)
  Lemma struct_complete name isp fs pa sel s tr s' a : safe_ty (TStruct name isp fs) = true -> lp_ty (TStruct name isp fs) = true ->
    wf_st s -> Forall isbyte (inp s) -> dec_ty T true (TStruct name isp fs) pa sel false s = (tr, s', Ok a) ->
    exists v, sp_ty T (TStruct name isp fs) pa sel false (inp s) = Some (v, inp s') /\ shape tr (items_of v) /\ all_valid v = true /\ struct_post v a.
  Proof.
    intros Hs Hl W Hb E. cbn [safe_ty lp_ty] in Hs, Hl. rewrite dec_ty_struct in E. cbn [andb] in E. cbv zeta in E.
    destruct (bind_inv _ _ _ _ _ _ _ _ E) as (tr1 & s1 & o1 & E1 & R1). injection E1 as <- <- <-. destruct R1 as (tr2 & E2 & ->).
    destruct (bind_inv _ _ _ _ _ _ _ _ E2) as (tr3 & s3 & o3 & E3 & R3).
    destruct o3 as [vals|ee| |kk|]; try (destruct R3 as [R3 _]; discriminate). destruct R3 as (tr4 & E4 & ->). injection E4 as <- <- <-.
    destruct (proj1 (proj2 comp_all) fs [] Hs Hl pa [] [] s tr3 s3 vals ltac:(constructor) ltac:(constructor) W Hb E3) as (kids & Hk & Sh & AV & HR).
    exists (SNode pa (TyN name) kids). rewrite sp_ty_struct. cbn [andb]. rewrite Hk. split; [reflexivity|]. rewrite app_nil_r.
    split; [cbn [items_of]; apply (sh_node pa (TyN name)); exact Sh|]. split; [exact AV|]. cbn [struct_post]. exists vals. split; [reflexivity|].
    rewrite app_nil_r in HR. exact HR.
  Qed.
End CompAll.
