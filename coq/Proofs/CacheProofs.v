From Coq Require Import ZArith List String Bool Lia.
From TV Require Import Model.Cache.
Import ListNotations.

Lemma find_remove_other n m l : n <> m -> find m (remove n l) = find m l.
Proof.
  intros Hne. induction l as [|[k v] r IH]; cbn [remove find]; [reflexivity|].
  destruct (String.eqb k n) eqn:E.
  - apply String.eqb_eq in E. subst k. destruct (String.eqb n m) eqn:E2; [apply String.eqb_eq in E2; contradiction|reflexivity].
  - cbn [find]. destruct (String.eqb k m); [reflexivity|exact IH].
Qed.

(** unbounded: a lookup of [n] after the lookups of history [h] gives what the first lookup of [n] gave *)
Definition stable_after (c : cache) (n : string) (id : nat) : Prop := find n (entries c) = Some id.

Lemma lookup_unbounded_keeps c n m id :
  stable_after c m id -> stable_after (fst (lookup None c n)) m id.
Proof.
  unfold stable_after, lookup. intros H.
  destruct (find n (entries c)) as [idn|] eqn:E; cbn [fst entries trim find].
  - destruct (String.eqb n m) eqn:E2.
    + apply String.eqb_eq in E2. subst m. congruence.
    + rewrite find_remove_other; [exact H|]. intros ->. rewrite String.eqb_refl in E2. discriminate.
  - destruct (String.eqb n m) eqn:E2.
    + apply String.eqb_eq in E2. subst m. congruence.
    + exact H.
Qed.

Lemma lookup_unbounded_records c n : stable_after (fst (lookup None c n)) n (snd (lookup None c n)).
Proof.
  unfold stable_after, lookup.
  destruct (find n (entries c)) as [idn|] eqn:E; cbn [fst snd entries trim find]; rewrite String.eqb_refl; reflexivity.
Qed.

Lemma lookup_hit cap c n id : stable_after c n id -> snd (lookup cap c n) = id.
Proof. unfold stable_after, lookup. intros ->. reflexivity. Qed.

Lemma run_stable c h n id : stable_after c n id ->
  forall i, nth_error h i = Some n -> nth_error (run None c h) i = Some id.
Proof.
  revert c. induction h as [|m r IH]; intros c H i Hi; [destruct i; discriminate|].
  cbn [run]. destruct (lookup None c m) as [c' idm] eqn:L.
  destruct i as [|i]; cbn [nth_error] in *.
  - injection Hi as ->. f_equal. pose proof (lookup_hit None c n id H) as E. rewrite L in E. exact E.
  - apply IH; [|exact Hi]. pose proof (lookup_unbounded_keeps c m n id H) as K. rewrite L in K. exact K.
Qed.

(** C12, unbounded memo: in ANY history (any interleaving of any decodes), two lookups of the same class
    return the same synthesized type *)
Theorem unbounded_cache_is_stable h i j n idi idj :
  nth_error h i = Some n -> nth_error h j = Some n ->
  nth_error (run None empty_cache h) i = Some idi -> nth_error (run None empty_cache h) j = Some idj ->
  idi = idj.
Proof.
  assert (G : forall (h : list string) (c : cache) (i j : nat) n idi idj, (i <= j)%nat ->
    nth_error h i = Some n -> nth_error h j = Some n ->
    nth_error (run None c h) i = Some idi -> nth_error (run None c h) j = Some idj -> idi = idj).
  { clear. induction h as [|m r IH]; intros c i j n idi idj Hle Hi Hj Ri Rj; [destruct i; discriminate|].
    cbn [run] in Ri, Rj. destruct (lookup None c m) as [c' idm] eqn:L.
    destruct i as [|i].
    - cbn [nth_error] in Hi, Ri. injection Hi as ->. injection Ri as ->.
      destruct j as [|j]; [cbn [nth_error] in Rj; congruence|].
      cbn [nth_error] in Hj, Rj.
      pose proof (lookup_unbounded_records c n) as S. rewrite L in S. cbn [fst snd] in S.
      pose proof (run_stable c' r n idi S j Hj) as E. congruence.
    - destruct j as [|j]; [lia|]. cbn [nth_error] in *. eapply IH; [|exact Hi|exact Hj|exact Ri|exact Rj]. lia. }
  intros Hi Hj Ri Rj. destruct (Nat.le_ge_cases i j) as [Hle|Hge].
  - eapply G; eassumption.
  - symmetry. eapply G; eassumption.
Qed.

(** a one-entry memo is not stable: A, B, A *)
Theorem one_entry_cache_refuted :
  exists h i j n idi idj, nth_error h i = Some n /\ nth_error h j = Some n /\
    nth_error (run (Some 1%Z) empty_cache h) i = Some idi /\
    nth_error (run (Some 1%Z) empty_cache h) j = Some idj /\ idi <> idj.
Proof.
  exists ["A"; "B"; "A"]%string, 0%nat, 2%nat, "A"%string, 0%nat, 2%nat. repeat split; try reflexivity. discriminate.
Qed.

(** every bounded memo is not stable: with room for m entries, m+1 different classes and then the first again *)
Fixpoint nm (i : nat) : string := match i with O => EmptyString | S j => String (Ascii.ascii_of_nat 97) (nm j) end.

Lemma nm_inj i j : nm i = nm j -> i = j.
Proof.
  revert j. induction i as [|i IH]; intros [|j] H; cbn [nm] in H; try discriminate; [reflexivity|].
  injection H as H. f_equal. apply IH. exact H.
Qed.

Definition ent (i : nat) : string * nat := (nm i, i).
Definition ents (t : nat) : list (string * nat) := map ent (rev (seq 0 t)).

Lemma ents_S t : ents (S t) = ent t :: ents t.
Proof. unfold ents. rewrite seq_S, rev_app_distr. reflexivity. Qed.

Lemma find_fresh x l : ~ In x l -> find (nm x) (map ent l) = None.
Proof.
  induction l as [|y l IH]; intros Hn; cbn [map find ent]; [reflexivity|].
  destruct (String.eqb (nm y) (nm x)) eqn:E.
  - apply String.eqb_eq, nm_inj in E. subst y. exfalso. apply Hn. left. reflexivity.
  - apply IH. intros Hin. apply Hn. right. exact Hin.
Qed.

Lemma firstn_cons_firstn {A} m (x : A) l : firstn m (x :: firstn m l) = firstn m (x :: l).
Proof.
  destruct m as [|m]; [reflexivity|]. rewrite !firstn_cons. f_equal.
  rewrite firstn_firstn. f_equal. lia.
Qed.

Lemma firstn_In {A} m (x : A) l : In x (firstn m l) -> In x l.
Proof. intros H. rewrite <- (firstn_skipn m l). apply in_or_app. left. exact H. Qed.

Lemma firstn_map {A B} (f : A -> B) m l : firstn m (map f l) = map f (firstn m l).
Proof. revert l. induction m as [|m IH]; intros [|a l]; cbn [firstn map]; try reflexivity. f_equal. apply IH. Qed.

Lemma lookup_fresh k t :
  lookup (Some k) (mkCache (firstn (Z.to_nat k) (ents t)) t) (nm t)
  = (mkCache (firstn (Z.to_nat k) (ents (S t))) (S t), t).
Proof.
  unfold lookup. cbn [entries next_id].
  assert (F : find (nm t) (firstn (Z.to_nat k) (ents t)) = None).
  { unfold ents. rewrite firstn_map. apply find_fresh. intros Hin.
    apply firstn_In in Hin. apply in_rev in Hin. apply in_seq in Hin. lia. }
  rewrite F. unfold trim. rewrite firstn_cons_firstn, ents_S. reflexivity.
Qed.

Lemma run_fresh k n : forall t rest,
  run (Some k) (mkCache (firstn (Z.to_nat k) (ents t)) t) (map nm (seq t n) ++ rest)
  = seq t n ++ run (Some k) (mkCache (firstn (Z.to_nat k) (ents (t + n))) (t + n)) rest.
Proof.
  induction n as [|n IH]; intros t rest.
  - cbn [seq map app]. rewrite Nat.add_0_r. reflexivity.
  - cbn [seq map app run]. rewrite lookup_fresh. cbn [app]. f_equal.
    rewrite IH. replace (S t + n)%nat with (t + S n)%nat by lia. reflexivity.
Qed.

Lemma first_is_evicted m : find (nm 0) (firstn m (ents (S m))) = None.
Proof.
  unfold ents. rewrite firstn_map. apply find_fresh.
  cbn [seq]. cbn [rev]. rewrite firstn_app.
  rewrite rev_length, seq_length, Nat.sub_diag. cbn [firstn]. rewrite app_nil_r.
  intros Hin. apply firstn_In in Hin. apply in_rev in Hin. apply in_seq in Hin. lia.
Qed.

Theorem bounded_cache_refuted (k : Z) :
  exists h i j n idi idj, nth_error h i = Some n /\ nth_error h j = Some n /\
    nth_error (run (Some k) empty_cache h) i = Some idi /\
    nth_error (run (Some k) empty_cache h) j = Some idj /\ idi <> idj.
Proof.
  set (m := Z.to_nat k).
  exists (map nm (seq 0 (S m)) ++ [nm 0]), 0%nat, (S m), (nm 0), 0%nat, (S m).
  assert (R : run (Some k) empty_cache (map nm (seq 0 (S m)) ++ [nm 0]) = seq 0 (S m) ++ [S m]).
  { replace empty_cache with (mkCache (firstn (Z.to_nat k) (ents 0)) 0)
      by (unfold ents; cbn [seq rev map]; rewrite firstn_nil; reflexivity).
    rewrite run_fresh. f_equal. cbn [Nat.add run]. unfold lookup. cbn [entries next_id].
    fold m. rewrite first_is_evicted. reflexivity. }
  rewrite R. repeat split.
  - rewrite nth_error_app2 by (rewrite map_length, seq_length; lia).
    rewrite map_length, seq_length, Nat.sub_diag. reflexivity.
  - rewrite nth_error_app2 by (rewrite seq_length; lia).
    rewrite seq_length, Nat.sub_diag. reflexivity.
  - lia.
Qed.
