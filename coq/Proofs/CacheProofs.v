From Coq Require Import ZArith List String Bool Lia.
From TV Require Import Model.Cache.
Import ListNotations.

Lemma find_remove_other n m l : n <> m -> find m (remove n l) = find m l.
Proof.
  intros Hne. induction l as [|[k v] r IH]; cbn [remove find]; [reflexivity|].
  destruct (String.eqb k n) eqn:E.
  - apply String.eqb_eq in E. subst k. destruct (String.eqb n m) eqn:E2; [apply String.eqb_eq in E2; contradiction|reflexivity].
  - cbn [find]. destruct (String.eqb k m); [reflexivity|exact IH].
Qed.

(** unbounded: a lookup of [n] after the lookups of history [h] gives what the first lookup of [n] gave *)
Definition stable_after (c : cache) (n : string) (id : nat) : Prop := find n (entries c) = Some id.

Lemma lookup_unbounded_keeps c n m id :
  stable_after c m id -> stable_after (fst (lookup None c n)) m id.
Proof.
  unfold stable_after, lookup. intros H.
  destruct (find n (entries c)) as [idn|] eqn:E; cbn [fst entries trim find].
  - destruct (String.eqb n m) eqn:E2.
    + apply String.eqb_eq in E2. subst m. congruence.
    + rewrite find_remove_other; [exact H|]. intros ->. rewrite String.eqb_refl in E2. discriminate.
  - destruct (String.eqb n m) eqn:E2.
    + apply String.eqb_eq in E2. subst m. congruence.
    + exact H.
Qed.

Lemma lookup_unbounded_records c n : stable_after (fst (lookup None c n)) n (snd (lookup None c n)).
Proof.
  unfold stable_after, lookup.
  destruct (find n (entries c)) as [idn|] eqn:E; cbn [fst snd entries trim find]; rewrite String.eqb_refl; reflexivity.
Qed.

Lemma lookup_hit cap c n id : stable_after c n id -> snd (lookup cap c n) = id.
Proof. unfold stable_after, lookup. intros ->. reflexivity. Qed.

Lemma run_stable c h n id : stable_after c n id ->
  forall i, nth_error h i = Some n -> nth_error (run None c h) i = Some id.
Proof.
  revert c. induction h as [|m r IH]; intros c H i Hi; [destruct i; discriminate|].
  cbn [run]. destruct (lookup None c m) as [c' idm] eqn:L.
  destruct i as [|i]; cbn [nth_error] in *.
  - injection Hi as ->. f_equal. pose proof (lookup_hit None c n id H) as E. rewrite L in E. exact E.
  - apply IH; [|exact Hi]. pose proof (lookup_unbounded_keeps c m n id H) as K. rewrite L in K. exact K.
Qed.

(** C12, unbounded memo: in ANY history (any interleaving of any decodes), two lookups of the same class
    return the same synthesized type *)
Theorem unbounded_cache_is_stable h i j n idi idj :
  nth_error h i = Some n -> nth_error h j = Some n ->
  nth_error (run None empty_cache h) i = Some idi -> nth_error (run None empty_cache h) j = Some idj ->
  idi = idj.
Proof.
  assert (G : forall (h : list string) (c : cache) (i j : nat) n idi idj, (i <= j)%nat ->
    nth_error h i = Some n -> nth_error h j = Some n ->
    nth_error (run None c h) i = Some idi -> nth_error (run None c h) j = Some idj -> idi = idj).
  { clear. induction h as [|m r IH]; intros c i j n idi idj Hle Hi Hj Ri Rj; [destruct i; discriminate|].
    cbn [run] in Ri, Rj. destruct (lookup None c m) as [c' idm] eqn:L.
    destruct i as [|i].
    - cbn [nth_error] in Hi, Ri. injection Hi as ->. injection Ri as ->.
      destruct j as [|j]; [cbn [nth_error] in Rj; congruence|].
      cbn [nth_error] in Hj, Rj.
      pose proof (lookup_unbounded_records c n) as S. rewrite L in S. cbn [fst snd] in S.
      pose proof (run_stable c' r n idi S j Hj) as E. congruence.
    - destruct j as [|j]; [lia|]. cbn [nth_error] in *. eapply IH; [|exact Hi|exact Hj|exact Ri|exact Rj]. lia. }
  intros Hi Hj Ri Rj. destruct (Nat.le_ge_cases i j) as [Hle|Hge].
  - eapply G; eassumption.
  - symmetry. eapply G; eassumption.
Qed.

(** a one-entry memo is not stable: A, B, A *)
Theorem one_entry_cache_refuted :
  exists h i j n idi idj, nth_error h i = Some n /\ nth_error h j = Some n /\
    nth_error (run (Some 1%Z) empty_cache h) i = Some idi /\
    nth_error (run (Some 1%Z) empty_cache h) j = Some idj /\ idi <> idj.
Proof.
  exists ["A"; "B"; "A"]%string, 0%nat, 2%nat, "A"%string, 0%nat, 2%nat. repeat split; try reflexivity. discriminate.
Qed.
