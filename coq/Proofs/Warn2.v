(** C08, part 2: warn mode never aborts - structure types, for arbitrary input. *)
From Coq Require Import ZArith List String Bool Lia ZifyBool.
From TV Require Import Layout.Types Base.Bytes Model.Monad Model.Constraints Model.Ints Model.Decoder Model.Message Model.Pump
  Spec.Value Proofs.Closure Proofs.LowClosure Proofs.Account Proofs.OpLemmas Proofs.Agree Proofs.Sim1 Proofs.Sim2 Proofs.Sim3 Proofs.Sim4 Proofs.Sim7
  Proofs.Comp1 Proofs.Safe1 Proofs.Safe2 Proofs.Warn1.
Import ListNotations.
Open Scope list_scope.
Open Scope Z_scope.

(** the regions around a run: every live listed one is among [L], and [L] holds allocated objects only *)
Definition Lok (s : st) (L : list nat) : Prop :=
  incl (ids_of (view s)) L /\ Forall (fun i => (i < List.length (store s))%nat) L.

Lemma Lok_cw s tr s' L : Lok s L -> cw s tr s' -> Lok s' L.
Proof.
  intros [Hi Ha] ((V & _ & _) & (Hl & _) & _). split; [rewrite V, ids_bump; exact Hi|].
  eapply Forall_impl; [|exact Ha]. cbn. intros. lia.
Qed.

(** ---- catching Exceeded of one's own regions *)
Lemma rw_catch_ret A L ids (m : M A) (a0 : A) s (Qm Q : A -> list action -> st -> Prop) :
  rw (ids ++ L) m s Qm -> (forall a tr s', Qm a tr s' -> Q a tr s') ->
  (forall c v b tr1 s1, In (si_id c) ids -> xpost s tr1 s1 (si_id c) -> Q a0 (tr1 ++ [Wn (EExceeded c v b)]) s1) ->
  rw L (catch_exceeded false ids m (ret a0)) s Q.
Proof.
  intros Hm Hq Hh tr s' o E. unfold catch_exceeded in E. destruct (m s) as [[tr1 s1] o1] eqn:E1.
  destruct (Hm _ _ _ E1) as (G1 & P1 & X1).
  destruct o1 as [a|e| |k|]; try contradiction.
  - injection E as <- <- <-. split; [exact Logic.I|]. split; [intros a' [= <-]; apply Hq, P1; reflexivity|discriminate].
  - destruct e as [p0 tn v src|c v b|c v val b|c|cc|rest cc|mp me mf]; try (injection E as <- <- <-; split; [exact G1|split; discriminate]).
    cbn [orb] in E. destruct (existsb (Nat.eqb (si_id c)) ids) eqn:Ex; cbn [negb] in E.
    + cbn [ret] in E. injection E as <- <- <-. split; [exact Logic.I|]. split; [|discriminate]. intros a' [= <-].
      apply existsb_exists in Ex as (j & Hj & Ej). apply Nat.eqb_eq in Ej. subst j. apply (Hh c v b tr1 s1 Hj (X1 c v b eq_refl)).
    + injection E as <- <- <-. split.
      * cbn [gw okfail] in *. apply in_app_or in G1 as [G1|G1]; [|exact G1]. exfalso.
        assert (Hx : existsb (Nat.eqb (si_id c)) ids = true) by (apply existsb_exists; exists (si_id c); split; [exact G1|apply Nat.eqb_refl]). congruence.
      * split; [discriminate|]. intros c' v' b' Ho. injection Ho as <- <- <-. apply (X1 c v b eq_refl).
  - injection E as <- <- <-. split; [exact Logic.I|]. split; discriminate.
Qed.

(** ---- bounded iteration of a step that charges what it reads *)
Lemma rw_iter A L (f : A -> M A) :
  (forall x s0, wf_st s0 -> Forall isbyte (inp s0) -> Lok s0 L -> rw L (f x) s0 (fun _ tr s1 => cw s0 tr s1)) ->
  forall n x s0, wf_st s0 -> Forall isbyte (inp s0) -> Lok s0 L -> rw L (iter n f x) s0 (fun _ tr s1 => cw s0 tr s1).
Proof.
  intros Hf n. induction n as [|n IH]; intros x s0 W0 B0 K0; cbn [iter].
  - apply rw_ret, cw_nil, W0.
  - apply rw_bind with (P := fun _ tr s1 => cw s0 tr s1); [apply Hf; assumption|intros a tr1 s1 C; exact C|].
    intros y tr1 s1 C1. eapply rw_weaken; [|apply (IH y s1 (cw_wf _ _ _ C1) (proj2 (proj2 C1) B0) (Lok_cw _ _ _ _ K0 C1))].
    cbv beta. intros _ tr2 s2 C2. eapply cw_trans; eassumption.
Qed.

Lemma rw_repZ A L (f : A -> M A) :
  (forall x s0, wf_st s0 -> Forall isbyte (inp s0) -> Lok s0 L -> rw L (f x) s0 (fun _ tr s1 => cw s0 tr s1)) ->
  forall z x s0, wf_st s0 -> Forall isbyte (inp s0) -> Lok s0 L -> rw L (repZ z f x) s0 (fun _ tr s1 => cw s0 tr s1).
Proof.
  intros Hf z x s0 W0 B0 K0. destruct z as [|p|p]; cbn [repZ]; [apply rw_ret, cw_nil, W0| |apply rw_ret, cw_nil, W0].
  eapply rw_eq; [apply (rep_iter _ f p x)|]. apply rw_iter; assumption.
Qed.

(** which region an Exceeded names: a live listed one that the field would cross *)
Lemma exceeded_entry p size s tr s' c v b : bytes_parsed p size s = (tr, s', Fail (EExceeded c v b)) ->
  In (si_id c, si_max c, si_already c) (view s) /\ exists mx, si_max c = Some mx /\ mx < si_already c + size.
Proof.
  intros E0. unfold bytes_parsed in E0.
  destruct (bind_inv' _ _ _ _ _ _ _ _ E0) as (t0 & s0 & o0 & X0 & R0).
  destruct (purge_spec s) as (s0' & Ep & I0 & St0 & L0). rewrite Ep in X0. injection X0 as <- <- <-. destruct R0 as (tr0 & E & _).
  rewrite bind_get in E. cbn [store lst] in E. rewrite St0, L0 in E.
  destruct (find_violated _ _ size []) as [[[[before i] by_] after]|] eqn:NV.
  - destruct (find_violated_spec _ _ _ _ _ _ _ _ NV) as (mid & Hbm & Hids & Hex & _). cbn [rev app] in Hbm. subst mid.
    change (get_sc (mkSt [] (store s) (filter (live s) (lst s))) i) with (get_sc s i) in *.
    assert (Hc : c = info i (get_sc s i)).
    { destruct (bind_inv' _ _ _ _ _ _ _ _ E) as (t1 & x1 & o1 & X1 & R1).
      destruct (silent_bump_all _ _ _ _ _ _ X1) as (_ & _ & u1 & ->). destruct R1 as (t2 & E2 & _).
      destruct (bind_inv' _ _ _ _ _ _ _ _ E2) as (t3 & x3 & o3 & X3 & R3).
      destruct (silent_retire_all _ _ _ _ _ X3) as (_ & _ & u3 & ->). destruct R3 as (t4 & E4 & _).
      destruct (bind_inv' _ _ _ _ _ _ _ _ E4) as (t5 & x5 & o5 & X5 & R5). unfold set_lst in X5. injection X5 as _ _ <-. destruct R5 as (t6 & E6 & _).
      destruct (bind_inv' _ _ _ _ _ _ _ _ E6) as (t7 & x7 & o7 & X7 & R7). unfold set_sc in X7. injection X7 as _ _ <-. destruct R7 as (t8 & E8 & _).
      destruct (bind_inv' _ _ _ _ _ _ _ _ E8) as (t9 & x9 & o9 & X9 & R9).
      destruct (consume_spec _ _ _ _ _ X9) as (_ & _ & _ & [[-> _]| ->]); [|destruct R9 as (R9 & _); discriminate].
      destruct R9 as (t10 & E10 & _). injection E10 as _ _ <- _ _. reflexivity. }
    subst c. cbn [info si_id si_max si_already]. split.
    + unfold view. rewrite Hids. apply in_map_iff. exists i. split; [reflexivity|apply in_or_app; right; left; reflexivity].
    + destruct (exceeds_spec _ _ _ Hex) as (mx & Hmx & Hb & Hpos). exists mx. split; [exact Hmx|lia].
  - exfalso. match type of E with context [bump_all ?a ?b ?c] => destruct (bump_all a b c) as [[t1 s1] o1] eqn:E1 end.
    destruct (silent_bump_all _ _ _ _ _ _ E1) as (_ & _ & u1 & ->). discriminate.
Qed.

Lemma dec_prim_fail_entry p pa s tr s' c v b : dec_prim false p pa s = (tr, s', Fail (EExceeded c v b)) ->
  In (si_id c, si_max c, si_already c) (view s) /\ exists mx, si_max c = Some mx /\ mx < si_already c + pwidth p.
Proof.
  intros E. unfold dec_prim in E. destruct (bind_inv' _ _ _ _ _ _ _ _ E) as (tr1 & s1 & o1 & E1 & R1).
  destruct o1 as [u|e| |k|]; try (destruct R1 as (R1 & _); discriminate).
  - exfalso. destruct R1 as (tr2 & E2 & _). destruct (bind_inv' _ _ _ _ _ _ _ _ E2) as (tr3 & s3 & o3 & E3 & R3).
    destruct (readn_w _ _ _ _ _ E3) as (_ & _ & _ & [(bs & -> & _ & _)| ->]); [|destruct R3 as (R3 & _); discriminate].
    destruct R3 as (tr4 & E4 & _). cbv zeta in E4. destruct (valid p _); unfold bind, emit, ret in E4; discriminate.
  - destruct R1 as (R1 & -> & ->). injection R1 as <-. apply (exceeded_entry _ _ _ _ _ _ _ _ E1).
Qed.

Lemma unique_entry (v : list entry) i m a m' a' : NoDup (ids_of v) -> In (i, m, a) v -> In (i, m', a') v -> m = m' /\ a = a'.
Proof.
  induction v as [|[[j mj] aj] v IH]; cbn [ids_of map In fst]; intros ND H1 H2; [contradiction|]. inversion ND as [|? ? Hn NDr]; subst.
  destruct H1 as [H1|H1], H2 as [H2|H2].
  - injection H1 as <- <- <-. injection H2 as <- <-. split; reflexivity.
  - injection H1 as <- <- <-. exfalso. apply Hn. change (In j (ids_of v)). unfold ids_of. apply in_map_iff. exists (j, m', a'). split; [reflexivity|exact H2].
  - injection H2 as <- <- <-. exfalso. apply Hn. unfold ids_of. apply in_map_iff. exists (j, m, a). split; [reflexivity|exact H1].
  - apply IH; assumption.
Qed.

Lemma view_ids_nodup s : wf_st s -> NoDup (ids_of (view s)).
Proof.
  intros [ND _]. unfold ids_of, view. rewrite map_map. cbn. rewrite map_id. apply NoDup_filter, ND.
Qed.

Section WTy.
  Variable T : tables.

  (** every size-prefixed list is a list of one-byte elements (true of all tables): its own region cannot be overrun *)
  Fixpoint bytes2b (t : ty) : bool :=
    match t with
    | TPrim _ => true
    | TStruct _ _ fs => b2_fields fs
    | TTpm2bList _ _ _ _ e => match e with TPrim p => pwidth p =? 1 | _ => false end
    | TTpm2bStruct _ _ _ _ i => bytes2b i
    | TUnion _ ar => b2_arms ar
    end
  with b2_fields (fs : fields) : bool :=
    match fs with
    | FNil => true
    | FPlain _ t r => bytes2b t && b2_fields r
    | FList _ e r => bytes2b e && b2_fields r
    | FUnion _ _ u r => bytes2b u && b2_fields r
    end
  with b2_arms (ar : arms) : bool :=
    match ar with
    | ANil => true
    | ACons _ _ p r => match p with PNone => true | PTy t => bytes2b t | PList e _ => bytes2b e end && b2_arms r
    end.

  Definition W_ty (t : ty) : Prop := safe_ty t = true -> bytes2b t = true -> forall pa sel s L,
    (is_union t = true -> sel <> None) -> wf_st s -> Forall isbyte (inp s) -> Lok s L ->
    rw L (dec_ty T false t pa sel false) s (fun a tr s' => cw s tr s' /\ shape_val t a).
  Definition W_fields (fs : fields) : Prop := forall prev, safe_fields fs prev = true -> b2_fields fs = true -> forall pa rd s L,
    relp prev rd -> wf_st s -> Forall isbyte (inp s) -> Lok s L ->
    rw L (dec_fields T false fs pa rd) s (fun vals tr s' => cw s tr s' /\ relp (decls fs prev) vals).
  Definition armp_b2 (p : armp) : bool := match p with PNone => true | PTy t => bytes2b t | PList e _ => bytes2b e end.
  Definition W_armp (p : armp) : Prop := match p with PNone => True | PTy t => W_ty t | PList e _ => W_ty e end.
  Definition W_arms (ar : arms) : Prop := forall uname pa target p s L, arm_at ar target = Some p -> armp_safe p = true -> armp_b2 p = true ->
    wf_st s -> Forall isbyte (inp s) -> Lok s L ->
    rw L (dec_arms T false ar uname pa target) s (fun _ tr s' => cw s tr s').

  (** a counted list *)
  Lemma array_w lid pa count e s L : W_ty e -> safe_ty e = true -> bytes2b e = true -> nonunion e = true ->
    wf_st s -> Forall isbyte (inp s) -> Lok s L ->
    rw L (dec_array lid pa count (fun p => dec_ty T false e p None false)) s (fun _ tr s' => cw s tr s').
  Proof.
    intros IH He Hb2 Hnu W Hb K. unfold dec_array.
    apply rw_bind with (P := fun _ tr s1 => tr = [sev pa lid] /\ s1 = s); [apply rw_emit; split; reflexivity|intros _ tr1 s1 (-> & ->); apply cw_ev; [exact W|reflexivity]|].
    intros _ tr1 s1 (-> & ->).
    apply rw_bind with (P := fun _ tr s1 => cw s tr s1).
    - apply rw_repZ; [|exact W|exact Hb|exact K]. intros x s0 W0 B0 K0.
      apply rw_bind with (P := fun _ tr s1 => cw s0 tr s1).
      + eapply rw_weaken; [|apply (IH He Hb2 (pindex pa (fst x)) None s0 L ltac:(intros Hu; unfold nonunion in Hnu; rewrite Hu in Hnu; discriminate) W0 B0 K0)].
        cbv beta. intros a tr s' [C _]. exact C.
      + intros a tr2 s2 C2. exact C2.
      + intros v tr2 s2 C2. apply rw_ret. rewrite app_nil_r. exact C2.
    - intros a tr2 s2 C2. exact C2.
    - intros r tr2 s2 C2. apply rw_ret. rewrite app_nil_r. eapply (cw_trans s [sev pa lid] s); [apply cw_ev; [exact W|reflexivity]|exact C2].
  Qed.

  Lemma rw_bind_ret A B L (m : M A) (g : A -> B) s (P : A -> list action -> st -> Prop) (Q : B -> list action -> st -> Prop) :
    rw L m s P -> (forall a tr s', P a tr s' -> Q (g a) tr s') -> rw L (bind m (fun a => ret (g a))) s Q.
  Proof.
    intros Hm Hq tr s' o E. destruct (bind_inv' _ _ _ _ _ _ _ _ E) as (tr1 & s1 & o1 & E1 & R). destruct (Hm _ _ _ E1) as (G1 & P1 & X1).
    destruct o1 as [a|e| |k|]; try contradiction.
    - destruct R as (tr2 & E2 & ->). injection E2 as <- <- <-. rewrite app_nil_r. split; [exact Logic.I|]. split; [intros b [= <-]; apply Hq, P1; reflexivity|discriminate].
    - destruct R as (-> & -> & ->). split; [exact G1|]. split; [discriminate|]. intros c v b Ho. injection Ho as ->. apply (X1 c v b eq_refl).
    - destruct R as (-> & _). split; [exact Logic.I|]. split; discriminate.
  Qed.

  (** a list of one-byte elements inside its own region of exactly [z] bytes: the region itself is never overrun *)
  Lemma bytes_loop ep pa cid z V L : pwidth ep = 1 -> ~ In cid L -> incl (ids_of V) L ->
    forall n x s a, wf_st s -> Forall isbyte (inp s) -> Forall (fun i => (i < List.length (store s))%nat) L ->
    (exists V', view s = V' ++ [(cid, Some z, a)] /\ ids_of V' = ids_of V) -> a + Z.of_nat n <= z ->
    rw L (iter n (fun st_ : Z * list (option value) => bind (dec_ty T false (TPrim ep) (pindex pa (fst st_)) None false) (fun v => ret (fst st_ + 1, v :: snd st_))) x) s
       (fun _ tr s' => cw s tr s').
  Proof.
    intros Hw1 HcL HVL. induction n as [|n IH]; intros x s a W Hb AL (V' & Vw & Hids) Hle; cbn [iter].
    - apply rw_ret, cw_nil, W.
    - assert (K' : Lok s (L ++ [cid])).
      { split; [rewrite Vw; unfold ids_of; rewrite map_app; cbn [map fst]; fold (ids_of V'); rewrite Hids; intros j Hj; apply in_app_or in Hj as [Hj|Hj]; apply in_or_app; [left; apply HVL, Hj|right; exact Hj]|].
        apply Forall_app. split; [exact AL|]. constructor; [|constructor].
        assert (Hc : In cid (lst s)) by (apply view_ids_in; rewrite Vw; unfold ids_of; rewrite map_app; apply in_or_app; right; left; reflexivity).
        destruct W as [_ A]. rewrite Forall_forall in A. apply A, Hc. }
      assert (Step : rw L (dec_prim false ep (pindex pa (fst x))) s (fun _ tr s1 => cw s tr s1 /\ blen (bytes_of tr) = 1)).
      { intros tr s1 o E. destruct (dec_prim_w ep (pindex pa (fst x)) s (L ++ [cid]) W ltac:(lia) (proj1 K') _ _ _ E) as (G & P & X).
        split; [|split; [intros v ->; destruct (P v eq_refl) as (C & bs & _ & Hbt & Hbl & _); split; [exact C|rewrite Hbt, Hbl; exact Hw1]|exact X]].
        destruct o as [v|e| |k|]; try exact G. destruct e as [p0 tn v0 src|c v0 b|c v0 val b|c|cc|rest cc|mp me mf]; try exact G.
        cbn [gw okfail] in *. apply in_app_or in G as [G|[G|[]]]; [exact G|]. exfalso.
        destruct (dec_prim_fail_entry _ _ _ _ _ _ _ _ E) as (Hin & mx & Hmx & Hlt). rewrite <- G in Hin.
        assert (Hin2 : In (cid, Some z, a) (view s)) by (rewrite Vw; apply in_or_app; right; left; reflexivity).
        destruct (unique_entry _ _ _ _ _ _ (view_ids_nodup s W) Hin Hin2) as [Hm Ha]. rewrite Hmx in Hm. injection Hm as ->. lia. }
      apply rw_bind with (P := fun _ tr s1 => cw s tr s1 /\ blen (bytes_of tr) = 1).
      + apply rw_bind_ret with (P := fun _ tr s1 => cw s tr s1 /\ blen (bytes_of tr) = 1); [exact Step|]. intros v tr1 s1 H. exact H.
      + intros y tr1 s1 [C _]. exact C.
      + intros y tr1 s1 [C1 Hl1]. pose proof C1 as ((V1 & W1 & _) & (Ls & _) & B1).
        eapply rw_weaken; [|apply (IH y s1 (a + 1) W1 (B1 Hb))].
        * cbv beta. intros _ tr2 s2 C2. eapply cw_trans; eassumption.
        * eapply Forall_impl; [|exact AL]. cbn. intros. lia.
        * exists (bump 1 V'). split; [rewrite V1, Hl1, Vw, bump_app; reflexivity|]. rewrite ids_bump. exact Hids.
        * lia.
  Qed.

  Lemma array_bytes_w lid pa ep cid z V s L : pwidth ep = 1 -> wf_st s -> Forall isbyte (inp s) ->
    view s = V ++ [(cid, Some z, 0)] -> ~ In cid L -> incl (ids_of V) L -> Forall (fun i => (i < List.length (store s))%nat) L ->
    rw L (dec_array lid pa z (fun p => dec_ty T false (TPrim ep) p None false)) s (fun _ tr s' => cw s tr s').
  Proof.
    intros Hw1 W Hb Vw HcL HVL AL. unfold dec_array.
    apply rw_bind with (P := fun _ tr s1 => tr = [sev pa lid] /\ s1 = s); [apply rw_emit; split; reflexivity|intros _ tr1 s1 (-> & ->); apply cw_ev; [exact W|reflexivity]|].
    intros _ tr1 s1 (-> & ->).
    apply rw_bind with (P := fun _ tr s1 => cw s tr s1).
    - destruct z as [|q|q]; cbn [repZ]; [apply rw_ret, cw_nil, W| |apply rw_ret, cw_nil, W].
      eapply rw_eq; [apply (rep_iter _ _ q (0, []))|].
      apply (bytes_loop ep pa cid (Z.pos q) V L Hw1 HcL HVL (Pos.to_nat q) (0, []) s 0 W Hb AL); [exists V; split; [exact Vw|reflexivity]|lia].
    - intros a tr2 s2 C2. exact C2.
    - intros r tr2 s2 C2. apply rw_ret. rewrite app_nil_r. eapply (cw_trans s [sev pa lid] s); [apply cw_ev; [exact W|reflexivity]|exact C2].
  Qed.

  (** closing a region after its payload *)
  Definition closed_postw (s4 : st) (V : list entry) : option value -> list action -> st -> Prop :=
    fun _ tr s6 => view s6 = bump (blen (bytes_of tr)) V /\ wf_st s6 /\ frame s4 s6 /\ mxf s4 s6 /\ (Forall isbyte (inp s4) -> Forall isbyte (inp s6)).

  Lemma close_w A L (payload : M A) (g : A -> option value) cid z s4 V :
    wf_st s4 -> view s4 = V ++ [(cid, Some z, 0)] -> ~ In cid (ids_of V) ->
    rw L payload s4 (fun _ tr s5 => cw s4 tr s5) ->
    rw L (bind payload (fun bv => bind (assert_done false cid) (fun _ => ret (g bv)))) s4 (closed_postw s4 V).
  Proof.
    intros W4 V4 Hn Hp.
    apply rw_bind with (P := fun _ tr s5 => cw s4 tr s5); [exact Hp|intros a tr1 s1 C; exact C|].
    intros bv tr5 s5 ((V5 & W5 & F5) & M5 & B5).
    rewrite V4, bump_app in V5. cbn [bump map bump_entry] in V5. rewrite Z.add_0_l in V5.
    apply rw_bind_ret with (P := fun _ tr s6 => view s6 = bump (blen (bytes_of tr)) (bump (blen (bytes_of tr5)) V) /\ wf_st s6 /\ frame s5 s6 /\ mxf s5 s6 /\
                                                 lst s6 = lst s5 /\ sc_obs (get_sc s6 cid) = true /\ inp s5 = bytes_of tr ++ inp s6).
    - apply (assert_done_w cid z (blen (bytes_of tr5)) _ s5 L W5 V5 ltac:(rewrite ids_bump; exact Hn)).
    - intros _ tr6 s6 (V6 & W6 & F6 & M6 & _ & _ & I6). unfold closed_postw.
      split; [rewrite V6, bump_bump, bytes_of_app; f_equal; unfold blen; rewrite app_length; lia|]. split; [exact W6|].
      split; [exact (frame_trans _ _ _ F5 F6)|]. split; [exact (mxf_trans _ _ _ M5 M6)|].
      intros H. apply B5 in H. rewrite I6 in H. apply Forall_app in H as [_ H]. exact H.
  Qed.

  Lemma snoc_split {A} (X : list A) e Z0 A0 y : X ++ e :: Z0 = A0 ++ [y] -> e <> y -> exists Z1, Z0 = Z1 ++ [y] /\ A0 = X ++ e :: Z1.
  Proof.
    intros H Hne. destruct Z0 as [|z0 Z0'].
    - apply app_inj_tail in H as [_ H]. contradiction.
    - destruct (@exists_last _ (z0 :: Z0') ltac:(discriminate)) as (Z1 & z & Hz). rewrite Hz in *. exists Z1.
      change (X ++ e :: Z1 ++ [z]) with (X ++ (e :: Z1) ++ [z]) in H. rewrite app_assoc in H. apply app_inj_tail in H as [H1 H2]. subst z.
      split; [reflexivity|symmetry; exact H1].
  Qed.

  (** the region of a TPM2B in warn mode: size field, fresh constraint announced (a size that cannot fit an enclosing
      region is a warning) and listed innermost, then [k] which closes it *)
  Lemma tpm2b_w (szp : prim) (size_path : path) (k : option value -> nat -> M (option value)) s L :
    psigned szp = false -> 0 <= pwidth szp -> wf_st s -> Forall isbyte (inp s) -> Lok s L ->
    (forall szv cid z s4 V, wf_st s4 -> Forall isbyte (inp s4) -> view s4 = V ++ [(cid, Some z, 0)] -> ~ In cid (ids_of V) -> ~ In cid L ->
                            incl (ids_of V) L -> Forall (fun i => (i < List.length (store s4))%nat) L ->
                            as_int szv = Some z -> rw L (k szv cid) s4 (closed_postw s4 V)) ->
    rw L (bind (dec_prim false szp size_path) (fun szv =>
          let size := match as_int szv with Some z => z | None => 0 end in
          bind new_sc (fun cid =>
          bind (set_constraint false cid size_path size) (fun _ =>
          bind (append_lst cid) (fun _ => k szv cid))))) s (fun _ tr s' => cw s tr s').
  Proof.
    intros Hu Hw W Hb K Hk tr s' o E.
    destruct (bind_inv' _ _ _ _ _ _ _ _ E) as (tr1 & s1 & o1 & E1 & R1).
    destruct (dec_prim_w szp size_path s L W Hw (proj1 K) _ _ _ E1) as (G1 & P1 & X1).
    destruct o1 as [szv|e| |kk|]; try contradiction.
    2:{ destruct R1 as (-> & -> & ->). split; [exact G1|]. split; [discriminate|]. intros c v b Ho. injection Ho as ->. apply (X1 c v b eq_refl). }
    2:{ destruct R1 as (-> & _). split; [exact Logic.I|]. split; discriminate. }
    destruct (P1 szv eq_refl) as (C1 & bs & -> & Hbt & Hbl & Hi). destruct R1 as (tr2 & E2 & ->). cbn [as_int] in E2. cbv zeta in E2.
    set (z := from_bytes (psigned szp) bs) in *.
    assert (Hz : 0 <= z).
    { unfold z. rewrite Hu. destruct bs as [|b0 bs']; [cbv; discriminate|]. rewrite Hi in Hb. apply Forall_app in Hb as [Hb' _].
      apply (from_bytes_range false (b0 :: bs') Hb' ltac:(discriminate)). reflexivity. }
    pose proof C1 as ((V1 & W1 & F1) & M1 & B1).
    destruct (new_sc_spec s1 W1) as (s2 & En & I2 & L2 & V2 & W2 & Len2 & G2 & Fr2).
    set (cid := List.length (store s1)) in *.
    unfold bind at 1 in E2. rewrite En in E2. cbn [app] in E2.
    destruct (set_constraint_w cid size_path z s2 Hz) as (trc & Ec & Hbc).
    unfold bind at 1 in E2. rewrite Ec in E2.
    assert (Hc2 : (cid < List.length (store s2))%nat) by lia.
    destruct (announced_facts cid size_path z s2 W2 Hc2) as (V3 & W3 & Len3 & G3 & G3' & Fr3).
    set (s3 := announced cid size_path z s2) in *.
    assert (Fresh : ~ In cid (ids_of (view s2))) by (rewrite V2; apply fresh_not_in_view, W1).
    rewrite (map_set_entry_fresh cid z _ Fresh) in V3.
    assert (NotListed : ~ In cid (lst s3)).
    { cbn [s3 announced lst]. rewrite L2. intros Hx. destruct W1 as [_ AL]. rewrite Forall_forall in AL. specialize (AL _ Hx). unfold cid in AL. lia. }
    destruct (append_facts cid s3 W3 NotListed ltac:(lia) ltac:(rewrite G3, G2; reflexivity)) as (V4 & W4 & Fr4).
    set (s4 := mkSt (inp s3) (store s3) (lst s3 ++ [cid])) in *.
    unfold bind at 1 in E2. cbn [append_lst] in E2. fold s4 in E2.
    destruct (k (Some (VInt_ (pname szp) z)) cid s4) as [[trk sk] ok] eqn:Ek. injection E2 as Htr2 <- <-.
    assert (Hb2 : bytes_of tr2 = bytes_of trk) by (rewrite <- Htr2; cbn [app]; rewrite ?bytes_of_app, Hbc; cbn [bytes_of app]; rewrite ?app_nil_r; reflexivity).
    assert (Ent : entry_of s3 cid = (cid, Some z, 0)) by (unfold entry_of; rewrite G3, G2; reflexivity).
    rewrite Ent, V3, V2, V1 in V4.
    assert (B4 : Forall isbyte (inp s4)) by (cbn [s4 s3 announced inp]; rewrite I2; apply B1, Hb).
    set (n1 := blen (bytes_of tr1)) in *.
    assert (Hn4 : ~ In cid (ids_of (bump n1 (view s)))) by (rewrite ids_bump; intros Hx; apply Fresh; rewrite V2, V1, ids_bump; exact Hx).
    destruct K as [KI KA].
    assert (HcL : ~ In cid L).
    { intros Hx. rewrite Forall_forall in KA. specialize (KA _ Hx). destruct M1 as [Lm _]. unfold cid in KA. lia. }
    assert (AL4 : Forall (fun i => (i < List.length (store s4))%nat) L).
    { assert (Ls4 : List.length (store s4) = S (List.length (store s1))) by (change (store s4) with (store s3); rewrite Len3, Len2; reflexivity).
      eapply Forall_impl; [|exact KA]. cbv beta. intros i Hi0. rewrite Ls4. destruct M1 as [Lm _]. lia. }
    destruct (Hk (Some (VInt_ (pname szp) z)) cid z s4 _ W4 B4 V4 Hn4 HcL ltac:(rewrite ids_bump; exact KI) AL4 eq_refl _ _ _ Ek) as (Gk & Pk & Xk).
    assert (Fr04 : frame s s4).
    { apply (frame_chain s s1 s2 s3 s4 s4 s4 cid F1 Fr2 eq_refl Fr3 Fr4 (frame_refl s4)). intros k0 _. apply frame_from_refl. }
    assert (M04 : mxf s s4).
    { eapply mxf_trans; [exact M1|]. split; [cbn [s4 s3 announced store]; rewrite upd_length, Len2; lia|]. intros i Hi0.
      change (get_sc s4 i) with (get_sc s3 i). rewrite G3' by (unfold cid; lia).
      destruct Fr2 as [_ Hf]. unfold get_sc. destruct (new_sc_spec s1 W1) as (s2' & En' & _). rewrite En in En'. injection En' as <-.
      unfold new_sc in En. injection En as <-. cbn [store]. rewrite app_nth1 by exact Hi0. reflexivity. }
    assert (Hbytes : blen (bytes_of (tr1 ++ tr2)) = n1 + blen (bytes_of trk)).
    { rewrite bytes_of_app, Hb2. unfold n1, blen. rewrite app_length. lia. }
    split; [exact Gk|]. split.
    - intros a ->. destruct (Pk a eq_refl) as (V6 & W6 & F6 & M6 & B6).
      split; [|split; [exact (mxf_trans _ _ _ M04 M6)|intros _; apply B6, B4]].
      split; [rewrite V6, bump_bump, Hbytes; reflexivity|]. split; [exact W6|exact (frame_trans _ _ _ Fr04 F6)].
    - intros c v b ->. destruct (Xk c v b eq_refl) as (X & e & Z0 & Hv & He & Hmx & Hv2 & W6 & F6 & M6 & Ob & B6).
      assert (Hic : si_id c <> cid).
      { intros Hx. cbn [gw okfail] in Gk. rewrite Hx in Gk. contradiction. }
      rewrite V4 in Hv. symmetry in Hv.
      destruct (snoc_split X e Z0 _ _ Hv ltac:(intros Hx; rewrite Hx in He; cbn in He; congruence)) as (Z1 & -> & Hbv).
      unfold bump in Hbv. destruct (map_eq_mid _ _ _ _ _ Hbv) as (X0 & e0 & Z2 & Hs & HX & He0 & HZ).
      exists X0, e0, Z2. split; [exact Hs|]. split; [rewrite <- He, <- He0; destruct e0 as [[j m] al0]; reflexivity|].
      split; [rewrite <- He0 in Hmx; destruct e0 as [[j m] al0]; exact Hmx|].
      split; [rewrite Hv2, <- HX; fold (bump n1 X0); rewrite bump_bump, Hbytes; reflexivity|].
      split; [exact W6|]. split; [exact (frame_trans _ _ _ Fr04 F6)|]. split; [exact (mxf_trans _ _ _ M04 M6)|]. split; [exact Ob|].
      intros _. apply B6, B4.
  Qed.

  Lemma last_entry_split (X : list entry) e Z0 V cid mx al : X ++ e :: Z0 = V ++ [(cid, mx, al)] -> fst (fst e) = cid -> ~ In cid (ids_of V) -> X = V /\ Z0 = [].
  Proof.
    intros H He Hn. destruct Z0 as [|z0 Z0'].
    - apply app_inj_tail in H as [H _]. split; [exact H|reflexivity].
    - exfalso. destruct (@exists_last _ (z0 :: Z0') ltac:(discriminate)) as (Z1 & z & Hz). rewrite Hz in H.
      change (X ++ e :: Z1 ++ [z]) with (X ++ (e :: Z1) ++ [z]) in H. rewrite app_assoc in H. apply app_inj_tail in H as [H1 _].
      apply Hn. rewrite <- H1. unfold ids_of. rewrite map_app. apply in_or_app. right. left. exact He.
  Qed.

  Lemma cw_sev s pa t : wf_st s -> cw s [sev pa t] s.
  Proof. intros W. apply cw_ev; [exact W|reflexivity]. Qed.

  Theorem warn_all : (forall t, W_ty t) /\ (forall fs, W_fields fs) /\ (forall ar, W_arms ar) /\ (forall p, W_armp p).
  Proof.
    apply ty_mutind.
    - (* TPrim *)
      intros p Hs _ pa sel s L _ W Hb K. cbn [safe_ty] in Hs. change (dec_ty T false (TPrim p) pa sel false) with (dec_prim false p pa).
      eapply rw_weaken; [|apply (dec_prim_w p pa s L W ltac:(lia) (proj1 K))].
      cbv beta. intros a tr s' (C & bs & -> & _). split; [exact C|eexists; reflexivity].
    - (* TStruct *)
      intros name isp fs IH Hs Hb2 pa sel s L _ W Hb K. cbn [safe_ty bytes2b] in Hs, Hb2. rewrite dec_ty_struct. cbn [andb]. cbv zeta.
      apply rw_bind with (P := fun _ tr s1 => tr = [sev pa (TyN name)] /\ s1 = s); [apply rw_emit; split; reflexivity|intros _ tr1 s1 (-> & ->); apply cw_sev, W|].
      intros _ tr1 s1 (-> & ->).
      apply rw_bind_ret with (P := fun vals tr s1 => cw s tr s1 /\ relp (decls fs []) vals); [apply (IH [] Hs Hb2 pa [] s L ltac:(constructor) W Hb K)|].
      intros vals tr2 s2 [C2 HR]. split; [eapply (cw_trans s [sev pa (TyN name)] s); [apply cw_sev, W|exact C2]|]. exists vals. split; [reflexivity|exact HR].
    - (* TTpm2bList *)
      intros name szf buf szp e IH Hs Hb2 pa sel s L _ W Hb K. cbn [safe_ty bytes2b] in Hs, Hb2. apply andb_prop in Hs as [Hs He]. apply andb_prop in Hs as [Hu Hn].
      apply andb_prop in Hu as [Hu Hw]. destruct e as [ep| | | |]; try discriminate.
      rewrite dec_ty_tpm2b_list. unfold dec_tpm2b_list.
      apply rw_bind with (P := fun _ tr s1 => tr = [sev pa (TyN name)] /\ s1 = s); [apply rw_emit; split; reflexivity|intros _ tr1 s1 (-> & ->); apply cw_sev, W|].
      intros _ tr1 s1 (-> & ->).
      eapply rw_weaken; [|apply (tpm2b_w szp (pchild pa szf)
        (fun szv cid => bind (dec_array (list_id (TPrim ep)) (pchild pa buf) (match as_int szv with Some z => z | None => 0 end) (fun p => dec_ty T false (TPrim ep) p None false))
                          (fun bv => bind (assert_done false cid) (fun _ => ret (Some (VStruct_ (TyN name) [(szf, szv); (buf, bv)])))))
        s L ltac:(destruct (psigned szp); [discriminate|reflexivity]) ltac:(lia) W Hb K)].
      + cbv beta. intros a tr s' C. split; [eapply (cw_trans s [sev pa (TyN name)] s); [apply cw_sev, W|exact C]|exact Logic.I].
      + intros szv cid z s4 V W4 B4 V4 Hn4 HcL HVL AL4 Hz. rewrite Hz.
        apply (close_w _ L _ (fun bv => Some (VStruct_ (TyN name) [(szf, szv); (buf, bv)])) cid z s4 V W4 V4 Hn4).
        apply (array_bytes_w (list_id (TPrim ep)) (pchild pa buf) ep cid z V s4 L ltac:(lia) W4 B4 V4 HcL HVL AL4).
    - (* TTpm2bStruct *)
      intros name szf buf szp inner IH Hs Hb2 pa sel s L _ W Hb K. cbn [safe_ty bytes2b] in Hs, Hb2. apply andb_prop in Hs as [Hs He]. apply andb_prop in Hs as [Hu Hn].
      apply andb_prop in Hu as [Hu Hw].
      rewrite dec_ty_tpm2b_struct.
      apply rw_bind with (P := fun _ tr s1 => tr = [sev pa (TyN name)] /\ s1 = s); [apply rw_emit; split; reflexivity|intros _ tr1 s1 (-> & ->); apply cw_sev, W|].
      intros _ tr1 s1 (-> & ->). cbv zeta.
      eapply rw_weaken; [|apply (tpm2b_w szp (pchild pa szf)
        (fun szv cid => if (match as_int szv with Some z => z | None => 0 end) =? 0
                        then bind (emit (sev (pchild pa buf) (ty_id inner))) (fun _ => bind (assert_done false cid) (fun _ => ret (Some (VStruct_ (TyN name) [(szf, szv); (buf, None)]))))
                        else catch_exceeded false [cid]
                               (bind (dec_ty T false inner (pchild pa buf) None false) (fun bv => bind (assert_done false cid) (fun _ => ret (Some (VStruct_ (TyN name) [(szf, szv); (buf, bv)])))))
                               (ret None))
        s L ltac:(destruct (psigned szp); [discriminate|reflexivity]) ltac:(lia) W Hb K)].
      + cbv beta. intros a tr s' C. split; [eapply (cw_trans s [sev pa (TyN name)] s); [apply cw_sev, W|exact C]|exact Logic.I].
      + intros szv cid z s4 V W4 B4 V4 Hn4 HcL HVL AL4 Hz. rewrite Hz. destruct (z =? 0).
        * apply (close_w _ L (emit (sev (pchild pa buf) (ty_id inner))) (fun _ => Some (VStruct_ (TyN name) [(szf, szv); (buf, None)])) cid z s4 V W4 V4 Hn4).
          apply rw_emit. apply cw_sev, W4.
        * apply rw_catch_ret with (Qm := closed_postw s4 V).
          -- apply (close_w _ ([cid] ++ L) _ (fun bv => Some (VStruct_ (TyN name) [(szf, szv); (buf, bv)])) cid z s4 V W4 V4 Hn4).
             eapply rw_weaken; [|apply (IH He Hb2 (pchild pa buf) None s4 ([cid] ++ L)
                                       ltac:(intros Hx; unfold nonunion in Hn; rewrite Hx in Hn; discriminate) W4 B4)].
             ++ cbv beta. intros a tr s' [C _]. exact C.
             ++ split.
                ** rewrite V4. unfold ids_of. rewrite map_app. cbn [map fst]. intros j Hj. apply in_app_or in Hj as [Hj|[<-|[]]]; [right; apply HVL, Hj|left; reflexivity].
                ** constructor; [|exact AL4]. assert (Hc : In cid (lst s4)) by (apply view_ids_in; rewrite V4; unfold ids_of; rewrite map_app; apply in_or_app; right; left; reflexivity).
                   destruct W4 as [_ A]. rewrite Forall_forall in A. apply A, Hc.
          -- intros a tr s' H. exact H.
          -- intros c v b tr1 s1 Hin (X & e & Z0 & Hv & Hid & _ & Hv2 & W6 & F6 & M6 & Ob & B6). destruct Hin as [Hin|[]].
             rewrite V4 in Hv. destruct (last_entry_split X e Z0 V cid (Some z) 0 (eq_sym Hv) ltac:(rewrite Hid, Hin; reflexivity) Hn4) as [-> ->].
             unfold closed_postw. rewrite bytes_of_app. cbn [bytes_of]. rewrite app_nil_r.
             split; [exact Hv2|]. split; [exact W6|]. split; [exact F6|]. split; [exact M6|exact B6].
    - (* TUnion *)
      intros name ar IH Hs Hb2 pa sel s L Hsel W Hb K. cbn [safe_ty bytes2b] in Hs, Hb2. apply andb_prop in Hs as [Hd Ha]. rewrite dec_ty_union.
      apply rw_bind with (P := fun _ tr s1 => tr = [sev pa (TyN name)] /\ s1 = s); [apply rw_emit; split; reflexivity|intros _ tr1 s1 (-> & ->); apply cw_sev, W|].
      intros _ tr1 s1 (-> & ->).
      destruct (select_arm ar sel) as [[n p]|] eqn:Es.
      + destruct (select_arm_safe ar sel n p Hd Ha Es) as [Hat Hp].
        eapply rw_weaken; [|apply (IH name pa n p s L Hat Hp ltac:(clear - Hb2 Hat; induction ar as [|m k0 q r IHr]; cbn [arm_at b2_arms] in *; [discriminate|];
                                                                    apply andb_prop in Hb2 as [H1 H2]; destruct (String.eqb m n); [injection Hat as <-; exact H1|apply IHr; assumption]) W Hb K)].
        cbv beta. intros a tr s' C. split; [eapply (cw_trans s [sev pa (TyN name)] s); [apply cw_sev, W|exact C]|exact Logic.I].
      + destruct sel as [[tn z]|]; [apply rw_fail_value; discriminate|exfalso; apply (Hsel eq_refl); reflexivity].
    - (* FNil *)
      intros prev _ _ pa rd s L HR W _ _. cbn [dec_fields decls]. apply rw_ret. split; [apply cw_nil, W|exact HR].
    - (* FPlain *)
      intros n t IHt r IHr prev Hs Hb2 pa rd s L HR W Hb K. cbn [safe_fields b2_fields] in Hs, Hb2. apply andb_prop in Hs as [Hs Hr]. apply andb_prop in Hs as [Hn Ht].
      apply andb_prop in Hb2 as [Hbt Hbr].
      rewrite dec_fields_plain. cbn [decls].
      apply rw_bind with (P := fun a tr s1 => cw s tr s1 /\ shape_val t a);
        [apply (IHt Ht Hbt (pchild pa n) None s L ltac:(intros Hx; unfold nonunion in Hn; rewrite Hx in Hn; discriminate) W Hb K)|intros a tr1 s1 [C _]; exact C|].
      intros v tr1 s1 [C1 Hv]. eapply rw_weaken; [|apply (IHr _ Hr Hbr pa ((n, v) :: rd) s1 L)].
      + cbv beta. intros vals tr2 s2 [C2 HR2]. split; [eapply cw_trans; eassumption|exact HR2].
      + constructor; [|exact HR]. cbn [fst snd]. split; [reflexivity|]. destruct t; try exact Logic.I. exact Hv.
      + exact (cw_wf _ _ _ C1).
      + apply (proj2 (proj2 C1)), Hb.
      + exact (Lok_cw _ _ _ _ K C1).
    - (* FList *)
      intros n e IHe r IHr prev Hs Hb2 pa rd s L HR W Hb K. cbn [safe_fields b2_fields] in Hs, Hb2.
      destruct prev as [|[cn [p0|]] prev']; try discriminate.
      apply andb_prop in Hs as [Hs Hr]. apply andb_prop in Hs as [Hn He]. apply andb_prop in Hb2 as [Hbe Hbr].
      inversion HR as [|a [cn' v] ? rd' [Hcn Hv] HR']; subst. cbn [fst snd] in *. destruct Hv as [z ->].
      rewrite dec_fields_list. cbn [last_nonlist is_list_value as_int decls].
      apply rw_bind with (P := fun _ tr s1 => cw s tr s1); [apply (array_w _ _ _ e s L IHe He Hbe Hn W Hb K)|intros a tr1 s1 C; exact C|].
      intros v tr1 s1 C1. eapply rw_weaken; [|apply (IHr _ Hr Hbr pa ((n, v) :: (cn', Some (VInt_ (pname p0) z)) :: rd') s1 L)].
      + cbv beta. intros vals tr2 s2 [C2 HR2]. split; [eapply cw_trans; eassumption|exact HR2].
      + constructor; [split; [reflexivity|exact Logic.I]|exact HR].
      + exact (cw_wf _ _ _ C1).
      + apply (proj2 (proj2 C1)), Hb.
      + exact (Lok_cw _ _ _ _ K C1).
    - (* FUnion *)
      intros n seln u IHu r IHr prev Hs Hb2 pa rd s L HR W Hb K. cbn [safe_fields b2_fields] in Hs, Hb2.
      destruct (lookupS seln prev) as [[p0|]|] eqn:Lk; try discriminate.
      apply andb_prop in Hs as [Hs Hr]. apply andb_prop in Hs as [Hun Hu]. apply andb_prop in Hb2 as [Hbu Hbr].
      destruct (relp_lookup seln prev rd p0 HR Lk) as [z Lz].
      rewrite dec_fields_union, Lz. cbn [as_typed_int decls].
      apply rw_bind with (P := fun a tr s1 => cw s tr s1 /\ shape_val u a);
        [apply (IHu Hu Hbu (pchild pa n) (Some (pname p0, z)) s L ltac:(intros _; discriminate) W Hb K)|intros a tr1 s1 [C _]; exact C|].
      intros v tr1 s1 [C1 _]. eapply rw_weaken; [|apply (IHr _ Hr Hbr pa ((n, v) :: rd) s1 L)].
      + cbv beta. intros vals tr2 s2 [C2 HR2]. split; [eapply cw_trans; eassumption|exact HR2].
      + constructor; [split; [reflexivity|exact Logic.I]|exact HR].
      + exact (cw_wf _ _ _ C1).
      + apply (proj2 (proj2 C1)), Hb.
      + exact (Lok_cw _ _ _ _ K C1).
    - (* ANil *) intros uname pa target p s L H. discriminate.
    - (* ACons *)
      intros n key p IHp r IHr uname pa target p1 s L Hat Hp Hpb W Hb K. rewrite dec_arms_cons. cbn [arm_at] in Hat.
      destruct (String.eqb n target); [|apply (IHr uname pa target p1 s L Hat Hp Hpb W Hb K)].
      injection Hat as ->. destruct p1 as [|t|e [cnt|]]; cbn [armp_safe armp_b2] in Hp, Hpb; try discriminate.
      + apply rw_ret, cw_nil, W.
      + apply andb_prop in Hp as [Hn Ht].
        apply rw_bind_ret with (P := fun _ tr s1 => cw s tr s1).
        * eapply rw_weaken; [|apply (IHp Ht Hpb (pchild pa n) None s L ltac:(intros Hx; unfold nonunion in Hn; rewrite Hx in Hn; discriminate) W Hb K)].
          cbv beta. intros a tr s' [C _]. exact C.
        * intros v tr1 s1 C1. exact C1.
      + apply andb_prop in Hp as [Hn He].
        apply rw_bind_ret with (P := fun _ tr s1 => cw s tr s1); [apply (array_w _ _ _ e s L IHp He Hpb Hn W Hb K)|].
        intros v tr1 s1 C1. exact C1.
    - exact Logic.I.
    - intros t IH. exact IH.
    - intros e IH n. exact IH.
  Qed.
End WTy.
