(** Simulation, part 3: the run predicate, its composition rule, the loop combinator. *)
From Coq Require Import ZArith List String Bool Lia ZifyBool.
From TV Require Import Layout.Types Base.Bytes Model.Monad Model.Constraints Model.Ints Model.Decoder Model.Message
  Spec.Value Proofs.Sim1 Proofs.Sim2.
Import ListNotations.
Open Scope list_scope.
Open Scope Z_scope.

(** the trace of a run that decodes [items]: each primitive's bytes directly followed by its event (and, in warn
    mode, by the warning if its value is out of range) *)
Inductive shape : list action -> list item -> Prop :=
| sh_nil : shape [] []
| sh_node pa t tr r : shape tr r -> shape (Ev (item_event (INode pa t)) :: tr) (INode pa t :: r)
| sh_prim pa p z bs tr r : List.length bs = Z.to_nat (pwidth p) -> 0 <= pwidth p -> shape tr r ->
    shape (map Rd bs ++ Ev (item_event (IPrim pa p z)) :: vwarn pa p z ++ tr) (IPrim pa p z :: r).

Lemma shape_app t1 i1 t2 i2 : shape t1 i1 -> shape t2 i2 -> shape (t1 ++ t2) (i1 ++ i2).
Proof.
  induction 1 as [|pa t tr r H IH|pa p z bs tr r L Hw H IH]; intros H2; cbn [app].
  - exact H2.
  - constructor. apply IH, H2.
  - rewrite <- app_assoc. cbn [app]. rewrite <- app_assoc. constructor; [exact L|exact Hw|apply IH, H2].
Qed.

Definition blen (l : list Z) : Z := Z.of_nat (List.length l).

(** a run from [s] that decodes [items], leaves [rest] unread, charges every live region the bytes
    consumed, leaves the unlisted constraint objects alone, and returns a value satisfying [post] *)
Definition ok_run {A} (m : M A) (s : st) (items : list item) (rest : list Z) (post : A -> Prop) : Prop :=
  exists tr s' a c, m s = (tr, s', Ok a) /\ shape tr items /\ inp s = c ++ rest /\ inp s' = rest /\
                    view s' = bump (blen c) (view s) /\ wf_st s' /\ frame s s' /\ post a.

Lemma ok_bind A B (m : M A) (f : A -> M B) s i1 i2 mid rest (P : A -> Prop) (Q : B -> Prop) :
  ok_run m s i1 mid P ->
  (forall s1 a, wf_st s1 -> inp s1 = mid -> view s1 = bump (blen (inp s) - blen mid) (view s) -> P a ->
                ok_run (f a) s1 i2 rest Q) ->
  ok_run (bind m f) s (i1 ++ i2) rest Q.
Proof.
  intros (tr1 & s1 & a & c1 & E1 & Sh1 & I1 & R1 & V1 & W1 & Fr1 & Pa) Hf.
  assert (L1 : blen (inp s) - blen mid = blen c1) by (rewrite I1; unfold blen; rewrite app_length; lia).
  destruct (Hf s1 a W1 R1 ltac:(rewrite L1; exact V1) Pa) as (tr2 & s2 & b & c2 & E2 & Sh2 & I2 & R2 & V2 & W2 & Fr2 & Qb).
  exists (tr1 ++ tr2), s2, b, (c1 ++ c2). unfold bind. rewrite E1, E2.
  split; [reflexivity|]. split; [apply shape_app; assumption|].
  split; [rewrite I1, <- R1, I2, app_assoc; reflexivity|]. split; [exact R2|].
  split; [|split; [exact W2|split; [exact (frame_trans _ _ _ Fr1 Fr2)|exact Qb]]].
  rewrite V2, V1, bump_bump. f_equal. unfold blen. rewrite app_length. lia.
Qed.

(** the same, the continuation also learning what the first part left alone *)
Lemma ok_bind_fr A B (m : M A) (f : A -> M B) s i1 i2 mid rest (P : A -> Prop) (Q : B -> Prop) :
  ok_run m s i1 mid P ->
  (forall s1 a, wf_st s1 -> inp s1 = mid -> view s1 = bump (blen (inp s) - blen mid) (view s) -> frame s s1 -> P a ->
                ok_run (f a) s1 i2 rest Q) ->
  ok_run (bind m f) s (i1 ++ i2) rest Q.
Proof.
  intros (tr1 & s1 & a & c1 & E1 & Sh1 & I1 & R1 & V1 & W1 & Fr1 & Pa) Hf.
  assert (L1 : blen (inp s) - blen mid = blen c1) by (rewrite I1; unfold blen; rewrite app_length; lia).
  destruct (Hf s1 a W1 R1 ltac:(rewrite L1; exact V1) Fr1 Pa) as (tr2 & s2 & b & c2 & E2 & Sh2 & I2 & R2 & V2 & W2 & Fr2 & Qb).
  exists (tr1 ++ tr2), s2, b, (c1 ++ c2). unfold bind. rewrite E1, E2.
  split; [reflexivity|]. split; [apply shape_app; assumption|].
  split; [rewrite I1, <- R1, I2, app_assoc; reflexivity|]. split; [exact R2|].
  split; [|split; [exact W2|split; [exact (frame_trans _ _ _ Fr1 Fr2)|exact Qb]]].
  rewrite V2, V1, bump_bump. f_equal. unfold blen. rewrite app_length. lia.
Qed.

Lemma ok_ret A (a : A) s (P : A -> Prop) : wf_st s -> P a -> ok_run (ret a) s [] (inp s) P.
Proof.
  intros W Pa. exists [], s, a, []. split; [reflexivity|]. split; [constructor|]. split; [reflexivity|].
  split; [reflexivity|]. split; [rewrite bump_0; reflexivity|split; [exact W|split; [apply frame_refl|exact Pa]]].
Qed.

Lemma ok_ret' A (a : A) s rest (P : A -> Prop) : wf_st s -> inp s = rest -> P a -> ok_run (ret a) s [] rest P.
Proof. intros W I Pa. subst rest. apply ok_ret; assumption. Qed.

Lemma ok_weaken A (m : M A) s items rest (P Q : A -> Prop) : (forall a, P a -> Q a) -> ok_run m s items rest P -> ok_run m s items rest Q.
Proof. intros H (tr & s' & a & c & E & R). exists tr, s', a, c. split; [exact E|]. intuition. Qed.

(** silent state-only steps keep everything *)
Lemma ok_sev pa t s : wf_st s -> ok_run (emit (sev pa t)) s [INode pa t] (inp s) (fun _ => True).
Proof.
  intros W. exists [sev pa t], s, tt, []. split; [reflexivity|]. split; [repeat constructor|].
  split; [reflexivity|]. split; [reflexivity|]. split; [rewrite bump_0; reflexivity|split; [exact W|split; [apply frame_refl|exact I]]].
Qed.

(** ---- loops: [rep p f] is [Pos.to_nat p] sequential applications of [f] *)
Fixpoint iter {A} (n : nat) (f : A -> M A) (x : A) : M A :=
  match n with O => ret x | S k => bind (f x) (iter k f) end.

Definition meq {A} (m1 m2 : M A) : Prop := forall s, m1 s = m2 s.

Lemma bind_assoc A B C (m : M A) (f : A -> M B) (g : B -> M C) :
  meq (bind (bind m f) g) (bind m (fun a => bind (f a) g)).
Proof.
  intros s. unfold bind. destruct (m s) as [[t1 s1] o1]. destruct o1; try reflexivity.
  destruct (f a s1) as [[t2 s2] o2]. destruct o2; try reflexivity.
  destruct (g a0 s2) as [[t3 s3] o3]. rewrite app_assoc. reflexivity.
Qed.

Lemma bind_cong A B (m1 m2 : M A) (f1 f2 : A -> M B) : meq m1 m2 -> (forall a, meq (f1 a) (f2 a)) -> meq (bind m1 f1) (bind m2 f2).
Proof. intros Hm Hf s. unfold bind. rewrite Hm. destruct (m2 s) as [[t1 s1] o1]. destruct o1; try reflexivity. rewrite Hf. reflexivity. Qed.

Lemma bind_ret_r A (m : M A) : meq (bind m ret) m.
Proof. intros s. unfold bind, ret. destruct (m s) as [[t1 s1] o1]. destruct o1; try reflexivity. rewrite app_nil_r. reflexivity. Qed.

Lemma iter_add A (f : A -> M A) a b x : meq (iter (a + b) f x) (bind (iter a f x) (iter b f)).
Proof.
  revert x. induction a as [|a IH]; intros x; cbn [iter Nat.add].
  - intros s. unfold bind, ret. cbn. destruct (iter b f x s) as [[t1 s1] o1]. reflexivity.
  - intros s. rewrite (bind_assoc _ _ _ (f x) (iter a f) (iter b f) s).
    apply bind_cong; [intros s'; reflexivity|]. intros y. apply IH.
Qed.

Lemma rep_iter A (f : A -> M A) p x : meq (rep p f x) (iter (Pos.to_nat p) f x).
Proof.
  revert x. induction p as [q IH|q IH|]; intros x; cbn [rep].
  - rewrite Pos2Nat.inj_xI. cbn [iter]. apply bind_cong; [intros s; reflexivity|]. intros y.
    replace (2 * Pos.to_nat q)%nat with (Pos.to_nat q + Pos.to_nat q)%nat by lia.
    intros s. rewrite (iter_add _ f _ _ y s). apply bind_cong; [apply IH|]. intros z. apply IH.
  - rewrite Pos2Nat.inj_xO. replace (2 * Pos.to_nat q)%nat with (Pos.to_nat q + Pos.to_nat q)%nat by lia.
    intros s. rewrite (iter_add _ f _ _ x s). apply bind_cong; [apply IH|]. intros z. apply IH.
  - cbn [iter Pos.to_nat Pos.iter_op]. intros s. symmetry. apply bind_ret_r.
Qed.

Lemma repZ_iter A (f : A -> M A) n x : 0 <= n -> meq (repZ n f x) (iter (Z.to_nat n) f x).
Proof.
  intros Hn. destruct n as [|p|p]; cbn [repZ Z.to_nat iter]; [intros s; reflexivity| |lia].
  apply rep_iter.
Qed.

Lemma ok_meq A (m1 m2 : M A) s items rest P : meq m1 m2 -> ok_run m2 s items rest P -> ok_run m1 s items rest P.
Proof. intros H (tr & s' & a & c & E & R). exists tr, s', a, c. rewrite H. split; [exact E|exact R]. Qed.
