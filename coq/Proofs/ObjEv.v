(** C11: turning the object the decoder returns back into events ([obj_to_events]) reproduces the decoded event list
    exactly - every structure type, commands, responses; every input strict decoding completes on. *)
From Coq Require Import ZArith List String Bool Lia.
From TV Require Import Layout.Types Base.Bytes Model.Monad Model.Constraints Model.Ints Model.Decoder Model.Message Model.Pump Model.Object
  Proofs.Agree Proofs.OpLemmas Proofs.Tiling Proofs.Sim3 Proofs.Sim4 Proofs.Sim6 Proofs.Sim7 Proofs.Safe1 Proofs.Safe3.
Import ListNotations.
Open Scope string_scope.
Open Scope list_scope.
Open Scope Z_scope.

(** the events of a trace *)
Fixpoint evs_of (tr : list action) : list event :=
  match tr with
  | [] => []
  | Ev e :: r => e :: evs_of r
  | _ :: r => evs_of r
  end.

Lemma evs_app a b : evs_of (a ++ b) = evs_of a ++ evs_of b.
Proof. induction a as [|[x|e|w] a IH]; cbn [app evs_of]; rewrite ?IH; reflexivity. Qed.
Lemma evs_reads bs : evs_of (map Rd bs) = [].
Proof. induction bs as [|b r IH]; [reflexivity|exact IH]. Qed.

Ltac binv E tr1 s1 a E1 :=
  let o := fresh "o" in let R := fresh "R" in let E2 := fresh "E" in let tr2 := fresh "tr" in
  destruct (bind_inv _ _ _ _ _ _ _ _ E) as (tr1 & s1 & o & E1 & R);
  destruct o as [a| | | |]; try (destruct R as [R _]; discriminate);
  destruct R as (tr2 & E2 & ->); clear E; rename E2 into E.

Lemma quiet_set_constraint i p n s tr s' a : set_constraint true i p n s = (tr, s', Ok a) -> tr = [].
Proof.
  unfold set_constraint. destruct (n <? 0); [discriminate|]. intros E.
  rewrite bind_get in E. binv E tr1 s1 u1 X1. injection X1 as <- <- <-.
  rewrite bind_get in E. destruct (anticipate _ _ _ _) as [[ci by_]|]; [discriminate|]. injection E as <- _ _. reflexivity.
Qed.

Lemma quiet_assert_done i s tr s' a : assert_done true i s = (tr, s', Ok a) -> tr = [].
Proof. intros E. exact (proj1 (assert_done_strict _ _ _ _ _ E)). Qed.

Lemma dec_prim_obj p pa s tr s' a : dec_prim true p pa s = (tr, s', Ok a) ->
  exists z, a = Some (VInt_ (pname p) z) /\ evs_of tr = [mkEvent pa (TyN (pname p)) (Some z)].
Proof.
  intros E. destruct (dec_prim_strict p pa s tr s' (Ok a) E) as (bs & -> & _ & _ & ->).
  eexists. split; [reflexivity|]. rewrite evs_app, evs_reads. reflexivity.
Qed.

(** names looked up in the finished attribute list *)
Fixpoint field_names (fs : fields) : list string :=
  match fs with FNil => [] | FPlain n _ r => n :: field_names r | FList n _ r => n :: field_names r | FUnion n _ _ r => n :: field_names r end.

Fixpoint named_ty (t : ty) : bool :=
  match t with
  | TPrim _ => true
  | TStruct _ _ fs => nodupb (field_names fs) && named_fields fs
  | TTpm2bList _ szf buf _ e => negb (String.eqb szf buf) && named_ty e
  | TTpm2bStruct _ szf buf _ i => negb (String.eqb szf buf) && named_ty i
  | TUnion _ ar => nodupb (arm_names ar) && named_arms ar
  end
with named_fields (fs : fields) : bool :=
  match fs with
  | FNil => true
  | FPlain _ t r => named_ty t && named_fields r
  | FList _ e r => named_ty e && named_fields r
  | FUnion _ _ u r => named_ty u && named_fields r
  end
with named_arms (ar : arms) : bool :=
  match ar with
  | ANil => true
  | ACons _ _ p r => match p with PNone => true | PTy t => named_ty t | PList e _ => named_ty e end && named_arms r
  end.

Definition unwrap (o : option value) : value := match o with Some x => x | None => VList_ [] end.

Fixpoint all_of {A} (P : A -> Prop) (l : list A) : Prop := match l with [] => True | x :: r => P x /\ all_of P r end.

(** the shape of the object a completed strict decode of [t] returns *)
Fixpoint wsh (t : ty) (v : value) {struct t} : Prop :=
  match t with
  | TPrim p => exists z, v = VInt_ (pname p) z
  | TStruct name isp fs => exists vals, v = VStruct_ (TyN name) vals /\ wsh_fields fs vals
  | TTpm2bList name szf buf szp e =>
      exists z l, v = VStruct_ (TyN name) [(szf, Some (VInt_ (pname szp) z)); (buf, Some (VList_ l))] /\ all_of (wsh e) l
  | TTpm2bStruct name szf buf szp i =>
      exists z, (v = VStruct_ (TyN name) [(szf, Some (VInt_ (pname szp) z)); (buf, None)] /\ z = 0) \/
                (exists x, v = VStruct_ (TyN name) [(szf, Some (VInt_ (pname szp) z)); (buf, Some x)] /\ z <> 0 /\ wsh i x)
  | TUnion name ar => v = VStruct_ (TyN name) [] \/ exists n x, v = VStruct_ (TyN name) [(n, Some x)] /\ wsh_arm ar n x
  end
with wsh_fields (fs : fields) (vals : list (string * option value)) {struct fs} : Prop :=
  match fs with
  | FNil => vals = []
  | FPlain n t r => exists x rest, vals = (n, Some x) :: rest /\ wsh t x /\ wsh_fields r rest
  | FList n e r => exists l rest, vals = (n, Some (VList_ l)) :: rest /\ all_of (wsh e) l /\ wsh_fields r rest
  | FUnion n _ u r => exists x rest, vals = (n, Some x) :: rest /\ wsh u x /\ wsh_fields r rest
  end
with wsh_arm (ar : arms) (n : string) (x : value) {struct ar} : Prop :=
  match ar with
  | ANil => False
  | ACons m _ p r =>
      if String.eqb m n then
        match p with
        | PNone => False
        | PTy t => wsh t x
        | PList e _ => exists l, x = VList_ l /\ all_of (wsh e) l
        end
      else wsh_arm r n x
  end.

Lemma all_of_app {A} (P : A -> Prop) a b : all_of P a -> all_of P b -> all_of P (a ++ b).
Proof. induction a as [|x a IH]; cbn [all_of app]; intros Ha Hb; [exact Hb|]. destruct Ha as [H1 H2]. split; [exact H1|apply IH; assumption]. Qed.

Section ObjEv.
  Variable T : tables.

  (** what a completed decode of [t] at [pa] delivers: a value whose events are the trace's *)
  Definition O_run (f : value -> path -> list event) (W : value -> Prop) (m : path -> M (option value)) : Prop :=
    forall pa s tr s' a, m pa s = (tr, s', Ok a) -> exists v, a = Some v /\ W v /\ evs_of tr = f v pa.

  Lemma all_of_snoc {A} (P : A -> Prop) l x : all_of P l -> P x -> all_of P (l ++ [x]).
  Proof. intros Hl Hx. apply all_of_app; [exact Hl|]. split; [exact Hx|exact Logic.I]. Qed.

  Lemma elems_obj f W body pa : O_run f W body ->
    forall n i acc s tr s' r,
    iter n (fun st_ : Z * list (option value) => bind (body (pindex pa (fst st_))) (fun v => ret (fst st_ + 1, v :: snd st_))) (i, acc) s = (tr, s', Ok r) ->
    exists xs, snd r = map Some (rev xs) ++ acc /\ all_of W xs /\ evs_of tr = oe_elems f pa xs i.
  Proof.
    intros Hb. induction n as [|n IHn]; intros i acc s tr s' r E; cbn [iter] in *.
    - injection E as <- _ <-. exists []. split; [reflexivity|]. split; [exact Logic.I|reflexivity].
    - binv E tr1 s1 st1 X1. destruct st1 as [i1 acc1]. binv X1 tr3 s3 v X3. injection X1 as <- _ <- <-. cbn [fst snd] in *.
      destruct (Hb _ _ _ _ _ X3) as (x & -> & Wx & Hx).
      destruct (IHn _ _ _ _ _ _ E) as (xs & Hr & Wxs & Hxs).
      exists (x :: xs). split; [rewrite Hr; cbn [rev]; rewrite map_app, <- app_assoc; reflexivity|]. split; [split; assumption|].
      rewrite !evs_app, Hx, Hxs. cbn [evs_of oe_elems]. rewrite app_nil_r. reflexivity.
  Qed.

  Lemma array_obj f W body lid pa count s tr s' a : O_run f W body ->
    dec_array lid pa count body s = (tr, s', Ok a) ->
    exists l, a = Some (VList_ l) /\ all_of W l /\ evs_of tr = oe_list lid f pa (VList_ l).
  Proof.
    intros Hb E. unfold dec_array in E. binv E tr1 s1 u1 X1. injection X1 as <- <- <-. binv E tr3 s3 r X3. injection E as <- _ <-.
    assert (Hloop : exists xs, snd r = map Some (rev xs) ++ [] /\ all_of W xs /\ evs_of tr3 = oe_elems f pa xs 0).
    { destruct count as [|q|q]; cbn [repZ] in X3.
      - injection X3 as <- _ <-. exists []. split; [reflexivity|]. split; [exact Logic.I|reflexivity].
      - rewrite (rep_iter _ _ q (0, []) s) in X3. apply (elems_obj f W body pa Hb _ _ _ _ _ _ _ X3).
      - injection X3 as <- _ <-. exists []. split; [reflexivity|]. split; [exact Logic.I|reflexivity]. }
    destruct Hloop as (xs & Hr & Wxs & Hx). exists xs. rewrite Hr, app_nil_r, <- map_rev, rev_involutive, map_map. cbn [unwrap].
    split; [rewrite map_id; reflexivity|]. split; [exact Wxs|]. unfold sev. cbn [app evs_of]. rewrite app_nil_r, Hx. reflexivity.
  Qed.

  Lemma tpm2b_list_obj name szf buf szp lid f W body pa s tr s' a : O_run f W body -> String.eqb szf buf = false ->
    dec_tpm2b_list true name szf buf szp lid body pa s = (tr, s', Ok a) ->
    exists z l, a = Some (VStruct_ (TyN name) [(szf, Some (VInt_ (pname szp) z)); (buf, Some (VList_ l))]) /\ all_of W l /\
      evs_of tr = ev_node pa (TyN name) :: oe_leaf (VInt_ (pname szp) z) (pchild pa szf) ++ oe_list lid f (pchild pa buf) (VList_ l).
  Proof.
    intros Hb Hne E. unfold dec_tpm2b_list in E.
    binv E tr1 s1 u1 X1. injection X1 as <- <- <-. binv E tr2 s2 szv X2. cbv zeta in E.
    destruct (dec_prim_obj _ _ _ _ _ _ X2) as (z & -> & Hz).
    binv E tr3 s3 cid X3. injection X3 as <- _ _. binv E tr4 s4 u4 X4. pose proof (quiet_set_constraint _ _ _ _ _ _ _ X4) as ->.
    binv E tr5 s5 u5 X5. injection X5 as <- _ _. binv E tr6 s6 bv X6.
    destruct (array_obj f W body lid _ _ _ _ _ _ Hb X6) as (l & -> & Wl & Hl).
    binv E tr7 s7 u7 X7. pose proof (quiet_assert_done _ _ _ _ _ X7) as ->. injection E as <- _ <-.
    exists z, l. split; [reflexivity|]. split; [exact Wl|].
    unfold sev. cbn [app evs_of]. rewrite !evs_app, Hz, Hl. cbn [evs_of oe_leaf app]. rewrite !app_nil_r. reflexivity.
  Qed.

  (** ---- the mutual induction over the layout descriptors *)
  Definition O_ty (t : ty) : Prop := named_ty t = true -> forall sel, O_run (oe_ty T t) (wsh t) (fun pa => dec_ty T true t pa sel false).
  Definition O_fields (fs : fields) : Prop := named_fields fs = true ->
    forall pa rvals s tr s' vals, dec_fields T true fs pa rvals s = (tr, s', Ok vals) ->
    exists new, vals = new ++ rvals /\ map fst new = rev (field_names fs) /\ wsh_fields fs (rev new) /\
      forall V, (forall n o, In (n, o) new -> lookupS n V = Some o) -> evs_of tr = oe_fields T fs V pa.
  Definition O_arms (ar : arms) : Prop := named_arms ar = true -> nodupb (arm_names ar) = true ->
    forall uname pa target s tr s' a, dec_arms T true ar uname pa target s = (tr, s', Ok a) ->
    exists l, a = Some (VStruct_ (TyN uname) l) /\ (l = [] \/ exists x, l = [(target, Some x)] /\ wsh_arm ar target x) /\ evs_of tr = oe_arms T ar l pa.
  Definition O_armp (p : armp) : Prop := match p with PNone => True | PTy t => O_ty t | PList e _ => O_ty e end.

  Lemma nodupb_NoDup l : nodupb l = true -> NoDup l.
  Proof.
    induction l as [|x r IH]; cbn [nodupb]; intros H; [constructor|]. apply andb_prop in H as [H1 H2].
    constructor; [|apply IH, H2]. apply nodupb_notin. destruct (existsb _ r); [discriminate|reflexivity].
  Qed.

  Lemma lookup_nodup {A} (l : list (string * A)) n o : NoDup (map fst l) -> In (n, o) l -> lookupS n l = Some o.
  Proof.
    induction l as [|[k a] l IH]; cbn [map fst lookupS In]; intros Hn Hi; [contradiction|].
    inversion Hn as [|? ? Hk Hn']; subst. destruct Hi as [[= -> ->]|Hi].
    - rewrite String.eqb_refl. reflexivity.
    - destruct (String.eqb n k) eqn:E; [|apply IH; assumption].
      apply String.eqb_eq in E. subst k. exfalso. apply Hk. apply (in_map fst) in Hi. exact Hi.
  Qed.

  Lemma oe_arms_nil ar pa : oe_arms T ar [] pa = [].
  Proof. induction ar as [|n k p r IH]; cbn [oe_arms lookupS app]; [reflexivity|exact IH]. Qed.

  Lemma oe_arms_other ar n o pa : ~ In n (arm_names ar) -> oe_arms T ar [(n, o)] pa = [].
  Proof.
    induction ar as [|m k p r IH]; cbn [oe_arms arm_names In lookupS]; intros H; [reflexivity|].
    destruct (String.eqb m n) eqn:E; [apply String.eqb_eq in E; exfalso; apply H; left; exact E|].
    cbn [app]. apply IH. intros Hx. apply H. right. exact Hx.
  Qed.

  Theorem obj_all : (forall t, O_ty t) /\ (forall fs, O_fields fs) /\ (forall ar, O_arms ar) /\ (forall p, O_armp p).
  Proof.
    apply ty_mutind.
    - (* TPrim *)
      intros p _ sel pa s tr s' a E. change (dec_ty T true (TPrim p) pa sel false) with (dec_prim true p pa) in E.
      destruct (dec_prim_obj _ _ _ _ _ _ E) as (z & -> & Hz). eexists. split; [reflexivity|]. split; [exists z; reflexivity|exact Hz].
    - (* TStruct *)
      intros name isp fs IH Hn sel pa s tr s' a E. cbn [named_ty] in Hn. apply andb_prop in Hn as [Hd Hn].
      rewrite dec_ty_struct in E. cbn [andb] in E. cbv zeta in E.
      binv E tr1 s1 u1 X1. injection X1 as <- <- <-. binv E tr3 s3 vals X3. injection E as <- _ <-.
      destruct (IH Hn pa [] s tr3 s3 vals X3) as (new & -> & Hf & Wf & Hv).
      eexists. split; [reflexivity|]. rewrite app_nil_r. split; [exists (rev new); split; [reflexivity|exact Wf]|]. unfold sev. cbn [app evs_of oe_ty]. rewrite app_nil_r. f_equal.
      apply Hv. intros n o Hi. apply lookup_nodup; [|apply in_rev in Hi; exact Hi].
      rewrite map_rev, Hf, rev_involutive. apply nodupb_NoDup, Hd.
    - (* TTpm2bList *)
      intros name szf buf szp e IH Hn sel pa s tr s' a E. cbn [named_ty] in Hn. apply andb_prop in Hn as [Hne Hn].
      rewrite dec_ty_tpm2b_list in E.
      destruct (tpm2b_list_obj name szf buf szp (list_id e) (oe_ty T e) (wsh e) (fun p => dec_ty T true e p None false) pa s tr s' a (IH Hn None)
                  ltac:(destruct (String.eqb szf buf); [discriminate|reflexivity]) E) as (z & l & -> & Wl & Hev).
      eexists. split; [reflexivity|]. split; [exists z, l; split; [reflexivity|exact Wl]|]. rewrite Hev. cbn [oe_ty lookupS]. rewrite String.eqb_refl.
      replace (String.eqb buf szf) with false by (rewrite String.eqb_sym; destruct (String.eqb szf buf); [discriminate|reflexivity]).
      rewrite String.eqb_refl. reflexivity.
    - (* TTpm2bStruct *)
      intros name szf buf szp inner IH Hn sel pa s tr s' a E. cbn [named_ty] in Hn. apply andb_prop in Hn as [Hne Hn].
      assert (Hbs : String.eqb buf szf = false) by (rewrite String.eqb_sym; destruct (String.eqb szf buf); [discriminate|reflexivity]).
      rewrite dec_ty_tpm2b_struct in E.
      binv E tr1 s1 u1 X1. injection X1 as <- <- <-. cbv zeta in E. binv E tr2 s2 szv X2.
      destruct (dec_prim_obj _ _ _ _ _ _ X2) as (z & -> & Hz). cbn [as_int] in E.
      binv E tr3 s3 cid X3. injection X3 as <- _ _. binv E tr4 s4 u4 X4. pose proof (quiet_set_constraint _ _ _ _ _ _ _ X4) as ->.
      binv E tr5 s5 u5 X5. injection X5 as <- _ _.
      destruct (z =? 0) eqn:Ez.
      + binv E tr6 s6 u6 X6. injection X6 as <- _ _. binv E tr7 s7 u7 X7. pose proof (quiet_assert_done _ _ _ _ _ X7) as ->. injection E as <- _ <-.
        eexists. split; [reflexivity|]. split; [exists z; left; split; [reflexivity|apply Z.eqb_eq; exact Ez]|]. unfold sev. cbn [app evs_of]. rewrite !evs_app, Hz. cbn [evs_of app oe_ty lookupS].
        rewrite String.eqb_refl, Hbs, String.eqb_refl. reflexivity.
      + rewrite catch_true in E. binv E tr6 s6 bv X6. destruct (IH Hn None _ _ _ _ _ X6) as (x & -> & Wx & Hx).
        binv E tr7 s7 u7 X7. pose proof (quiet_assert_done _ _ _ _ _ X7) as ->. injection E as <- _ <-.
        eexists. split; [reflexivity|]. split; [exists z; right; exists x; split; [reflexivity|]; split; [apply Z.eqb_neq; exact Ez|exact Wx]|]. unfold sev. cbn [app evs_of]. rewrite !evs_app, Hz, Hx. cbn [evs_of app oe_ty lookupS].
        rewrite String.eqb_refl, Hbs, String.eqb_refl, !app_nil_r. reflexivity.
    - (* TUnion *)
      intros name ar IH Hn sel pa s tr s' a E. cbn [named_ty] in Hn. apply andb_prop in Hn as [Hd Hn].
      rewrite dec_ty_union in E. binv E tr1 s1 u1 X1. injection X1 as <- <- <-.
      destruct (select_arm ar sel) as [[n p]|]; [|destruct sel as [[tn z]|]; discriminate].
      destruct (IH Hn Hd name pa n s _ s' a E) as (l & -> & Wl & Hl).
      eexists. split; [reflexivity|]. split; [destruct Wl as [->|(x & -> & Wx)]; [left; reflexivity|right; exists n, x; split; [reflexivity|exact Wx]]|]. unfold sev. cbn [app evs_of oe_ty]. rewrite Hl. reflexivity.
    - (* FNil *)
      intros _ pa rvals s tr s' vals E. cbn [dec_fields] in E. injection E as <- _ <-. exists []. split; [reflexivity|]. split; [reflexivity|]. split; [reflexivity|]. intros; reflexivity.
    - (* FPlain *)
      intros n t IHt r IHr Hn pa rvals s tr s' vals E. cbn [named_fields] in Hn. apply andb_prop in Hn as [Hnt Hnr].
      rewrite dec_fields_plain in E. binv E tr1 s1 v X1. destruct (IHt Hnt None _ _ _ _ _ X1) as (x & -> & Wx & Hx).
      destruct (IHr Hnr pa _ s1 _ s' vals E) as (new & -> & Hf & Wf & Hv).
      exists (new ++ [(n, Some x)]). split; [rewrite <- app_assoc; reflexivity|].
      split; [rewrite map_app, Hf; reflexivity|]. split; [rewrite rev_app_distr; cbn [rev app wsh_fields]; exists x, (rev new); split; [reflexivity|split; assumption]|]. intros V HV. rewrite evs_app, Hx. cbn [oe_fields].
      rewrite (HV n (Some x)) by (apply in_or_app; right; left; reflexivity). f_equal.
      apply Hv. intros m o Hi. apply HV. apply in_or_app. left. exact Hi.
    - (* FList *)
      intros n e IHe r IHr Hn pa rvals s tr s' vals E. cbn [named_fields] in Hn. apply andb_prop in Hn as [Hne Hnr].
      rewrite dec_fields_list in E. destruct (last_nonlist rvals) as [cv|]; [|discriminate]. destruct (as_int cv) as [count|]; [|discriminate].
      binv E tr1 s1 v X1.
      destruct (array_obj (oe_ty T e) (wsh e) (fun p => dec_ty T true e p None false) (list_id e) _ count _ _ _ _ (IHe Hne None) X1) as (l & -> & Wl & Hl).
      destruct (IHr Hnr pa _ s1 _ s' vals E) as (new & -> & Hf & Wf & Hv).
      exists (new ++ [(n, Some (VList_ l))]). split; [rewrite <- app_assoc; reflexivity|].
      split; [rewrite map_app, Hf; reflexivity|]. split; [rewrite rev_app_distr; cbn [rev app wsh_fields]; exists l, (rev new); split; [reflexivity|split; assumption]|]. intros V HV. rewrite evs_app, Hl. cbn [oe_fields].
      rewrite (HV n (Some (VList_ l))) by (apply in_or_app; right; left; reflexivity). f_equal.
      apply Hv. intros m o Hi. apply HV. apply in_or_app. left. exact Hi.
    - (* FUnion *)
      intros n seln u IHu r IHr Hn pa rvals s tr s' vals E. cbn [named_fields] in Hn. apply andb_prop in Hn as [Hnu Hnr].
      rewrite dec_fields_union in E. destruct (lookupS seln rvals) as [sv|]; [|discriminate]. destruct (as_typed_int sv) as [tz|]; [|discriminate].
      binv E tr1 s1 v X1. destruct (IHu Hnu (Some tz) _ _ _ _ _ X1) as (x & -> & Wx & Hx).
      destruct (IHr Hnr pa _ s1 _ s' vals E) as (new & -> & Hf & Wf & Hv).
      exists (new ++ [(n, Some x)]). split; [rewrite <- app_assoc; reflexivity|].
      split; [rewrite map_app, Hf; reflexivity|]. split; [rewrite rev_app_distr; cbn [rev app wsh_fields]; exists x, (rev new); split; [reflexivity|split; assumption]|]. intros V HV. rewrite evs_app, Hx. cbn [oe_fields].
      rewrite (HV n (Some x)) by (apply in_or_app; right; left; reflexivity). f_equal.
      apply Hv. intros m o Hi. apply HV. apply in_or_app. left. exact Hi.
    - (* ANil *)
      intros _ _ uname pa target s tr s' a E. cbn [dec_arms] in E. discriminate.
    - (* ACons *)
      intros n k p IHp r IHr Hn Hd uname pa target s tr s' a E. cbn [named_arms] in Hn. apply andb_prop in Hn as [Hnp Hnr].
      cbn [arm_names nodupb] in Hd. apply andb_prop in Hd as [Hd1 Hd2].
      assert (Hnotin : ~ In n (arm_names r)) by (apply nodupb_notin; destruct (existsb _ _); [discriminate|reflexivity]).
      cbn [dec_arms] in E. destruct (String.eqb n target) eqn:Et.
      + apply String.eqb_eq in Et. subst target.
        destruct p as [|t|e [cnt|]].
        * injection E as <- _ <-. exists []. split; [reflexivity|]. split; [left; reflexivity|]. rewrite oe_arms_nil. reflexivity.
        * binv E tr1 s1 v X1. injection E as <- _ <-. destruct (IHp Hnp None _ _ _ _ _ X1) as (x & -> & Wx & Hx).
          exists [(n, Some x)]. split; [reflexivity|]. split; [right; eexists; split; [reflexivity|cbn [wsh_arm]; rewrite String.eqb_refl; exact Wx]|].
          rewrite app_nil_r, Hx. cbn [oe_arms lookupS]. rewrite String.eqb_refl, (oe_arms_other r n _ pa Hnotin), app_nil_r. reflexivity.
        * binv E tr1 s1 v X1. injection E as <- _ <-.
          destruct (array_obj (oe_ty T e) (wsh e) (fun p => dec_ty T true e p None false) (list_id e) _ cnt _ _ _ _ (IHp Hnp None) X1) as (l & -> & Wl & Hl).
          exists [(n, Some (VList_ l))]. split; [reflexivity|]. split; [right; eexists; split; [reflexivity|cbn [wsh_arm]; rewrite String.eqb_refl; exists l; split; [reflexivity|exact Wl]]|].
          rewrite app_nil_r, Hl. cbn [oe_arms lookupS]. rewrite String.eqb_refl, (oe_arms_other r n _ pa Hnotin), app_nil_r. reflexivity.
        * discriminate.
      + destruct (IHr Hnr Hd2 uname pa target s tr s' a E) as (l & -> & Hl & Hev).
        exists l. split; [reflexivity|]. split; [destruct Hl as [->|(x & -> & Wx)]; [left; reflexivity|right; exists x; split; [reflexivity|cbn [wsh_arm]; rewrite Et; exact Wx]]|]. rewrite Hev. cbn [oe_arms].
        destruct Hl as [->|(x & -> & _)]; cbn [lookupS]; [reflexivity|]. rewrite Et. reflexivity.
    - exact Logic.I.
    - intros t IH. exact IH.
    - intros e IH n. exact IH.
  Qed.
End ObjEv.

(** ---- the message level *)
Definition msg_named (T : tables) : bool :=
  forallb (fun kt => named_ty (snd kt)) (cmd_handles T ++ cmd_params T ++ rsp_handles T ++ rsp_params T) &&
  named_ty (t_auth_cmd T) && named_ty (t_auth_rsp T) && named_ty (t_enc_param T).

(** the shape of a parameter area decoded with the opaque first parameter *)
Definition enc_shape (T : tables) (pty : ty) (v : value) : Prop :=
  match pty, t_enc_param T with
  | TStruct name isp (FPlain n t r), TTpm2bList ename eszf ebuf eszp (TPrim ep) =>
      exists z l rest,
        v = VStruct_ (TyEnc name) ((n, Some (VStruct_ (TyN ename) [(eszf, Some (VInt_ (pname eszp) z)); (ebuf, Some (VList_ l))])) :: rest) /\
        all_of (wsh (TPrim ep)) l /\ wsh_fields r rest
  | _, _ => False
  end.
Definition wshp (T : tables) (pty : ty) (v : value) : Prop := wsh pty v \/ enc_shape T pty v.

(** the shape of the objects the message decoders return *)
Definition cmd_shape_cc (T : tables) (cc : Z) (v : value) : Prop :=
  exists tagn tagz szn szz ccn hty hx pty pv,
    lookupZ cc (cmd_handles T) = Some hty /\ lookupZ cc (cmd_params T) = Some pty /\ wsh hty hx /\ wshp T pty pv /\
    (v = VStruct_ (TyN "Command") [("tag", Some (VInt_ tagn tagz)); ("commandSize", Some (VInt_ szn szz)); ("commandCode", Some (VInt_ ccn cc));
                                    ("handles", Some hx); ("parameters", Some pv)] \/
     exists asn asz l, all_of (wsh (t_auth_cmd T)) l /\
       v = VStruct_ (TyN "Command") [("tag", Some (VInt_ tagn tagz)); ("commandSize", Some (VInt_ szn szz)); ("commandCode", Some (VInt_ ccn cc));
                                      ("handles", Some hx); ("authSize", Some (VInt_ asn asz)); ("authorizationArea", Some (VList_ l));
                                      ("parameters", Some pv)]).
Definition cmd_shape (T : tables) (v : value) : Prop := exists cc, cmd_shape_cc T cc v.
Definition rsp_shape (T : tables) (cc : option Z) (v : value) : Prop :=
  exists tagn tagz szn szz rcn rc,
    v = VStruct_ (TyN "Response") [("tag", Some (VInt_ tagn tagz)); ("responseSize", Some (VInt_ szn szz)); ("responseCode", Some (VInt_ rcn rc))] \/
    exists c hty hx pty px, cc = Some c /\ lookupZ c (rsp_handles T) = Some hty /\ lookupZ c (rsp_params T) = Some pty /\ wshp T hty hx /\ wshp T pty px /\
      (v = VStruct_ (TyN "Response") [("tag", Some (VInt_ tagn tagz)); ("responseSize", Some (VInt_ szn szz)); ("responseCode", Some (VInt_ rcn rc));
                                       ("handles", Some hx); ("parameters", Some px)] \/
       exists psn psz l, all_of (wsh (t_auth_rsp T)) l /\
         v = VStruct_ (TyN "Response") [("tag", Some (VInt_ tagn tagz)); ("responseSize", Some (VInt_ szn szz)); ("responseCode", Some (VInt_ rcn rc));
                                         ("handles", Some hx); ("parameterSize", Some (VInt_ psn psz)); ("parameters", Some px);
                                         ("authorizationArea", Some (VList_ l))]).

Section MsgObj.
  Variable T : tables.
  Hypothesis Hnm : msg_named T = true.

  Lemma area_named cc t : lookupZ cc (cmd_handles T) = Some t \/ lookupZ cc (cmd_params T) = Some t \/
                          lookupZ cc (rsp_handles T) = Some t \/ lookupZ cc (rsp_params T) = Some t -> named_ty t = true.
  Proof.
    intros H. unfold msg_named in Hnm. apply andb_prop in Hnm as [Hl _]. apply andb_prop in Hl as [Hl _]. apply andb_prop in Hl as [Hl _].
    rewrite forallb_forall in Hl.
    assert (Hin : exists c', In (c', t) (cmd_handles T ++ cmd_params T ++ rsp_handles T ++ rsp_params T)).
    { destruct H as [H|[H|[H|H]]]; destruct (lookupZ_in _ _ _ H) as (c' & Hi & _); exists c'; rewrite !in_app_iff; tauto. }
    destruct Hin as (c' & Hin). apply (Hl _ Hin).
  Qed.

  (** the size-governed session list *)
  Lemma sstep_obj f W body cid mx pa : O_run f W body ->
    forall n i acc s tr s' r, iter n (sstep body cid mx pa) (i, acc) s = (tr, s', Ok r) ->
    exists xs, snd r = map Some (rev xs) ++ acc /\ all_of W xs /\ evs_of tr = oe_elems f pa xs i.
  Proof.
    intros Hb. induction n as [|n IHn]; intros i acc s tr s' r E; cbn [iter] in *.
    - injection E as <- _ <-. exists []. split; [reflexivity|]. split; [exact Logic.I|reflexivity].
    - binv E tr1 s1 st1 X1. destruct st1 as [i1 acc1]. unfold sstep in X1. rewrite bind_get in X1.
      destruct (_ <? mx).
      + binv X1 tr3 s3 v X3. injection X1 as <- _ <- <-. cbn [fst snd] in *.
        destruct (Hb _ _ _ _ _ X3) as (x & -> & Wx & Hx).
        destruct (IHn _ _ _ _ _ _ E) as (xs & Hr & Wxs & Hxs).
        exists (x :: xs). split; [rewrite Hr; cbn [rev]; rewrite map_app, <- app_assoc; reflexivity|]. split; [split; assumption|].
        rewrite !evs_app, Hx, Hxs. cbn [evs_of oe_elems]. rewrite app_nil_r. reflexivity.
      + injection X1 as <- _ <- <-. destruct (IHn _ _ _ _ _ _ E) as (xs & Hr & Wxs & Hxs). exists xs. split; [exact Hr|]. split; [exact Wxs|exact Hxs].
  Qed.

  Lemma sized_obj f W body lid pa cid s tr s' a : O_run f W body ->
    dec_sized_array true lid pa cid body s = (tr, s', Ok a) ->
    exists l, a = Some (VList_ l) /\ all_of W l /\ evs_of tr = oe_list lid f pa (VList_ l).
  Proof.
    intros Hb E. unfold dec_sized_array in E. binv E tr1 s1 u1 X1. injection X1 as <- <- <-. rewrite bind_get in E.
    destruct (sc_max _) as [mx|]; [|discriminate]. rewrite catch_true in E. binv E tr3 s3 r X3.
    rewrite bind_get in E. destruct (_ <? mx); [discriminate|]. binv E tr4 s4 u4 X4. pose proof (quiet_assert_done _ _ _ _ _ X4) as ->.
    injection E as <- _ <-.
    assert (Hloop : exists xs, snd r = map Some (rev xs) ++ [] /\ all_of W xs /\ evs_of tr3 = oe_elems f pa xs 0).
    { destruct (mx - _) as [|q|q]; cbn [repZ] in X3.
      - injection X3 as <- _ <-. exists []. split; [reflexivity|]. split; [exact Logic.I|reflexivity].
      - rewrite (rep_iter _ _ q (0, []) s) in X3. apply (sstep_obj f W body cid mx pa Hb _ _ _ _ _ _ _ X3).
      - injection X3 as <- _ <-. exists []. split; [reflexivity|]. split; [exact Logic.I|reflexivity]. }
    destruct Hloop as (xs & Hr & Wxs & Hx). exists xs. unfold listval. rewrite Hr, app_nil_r, <- map_rev, rev_involutive, map_map.
    split; [rewrite map_id; reflexivity|]. split; [exact Wxs|]. unfold sev. cbn [app evs_of]. rewrite !app_nil_r, Hx. reflexivity.
  Qed.

  (** a parameter area, with or without the opaque first parameter *)
  Lemma params_obj pty enc : named_ty pty = true -> O_run (oe_ty T pty) (wshp T pty) (fun pa => dec_ty T true pty pa None enc).
  Proof.
    intros Hn pa' s tr s' a E.
    assert (Plain : O_run (oe_ty T pty) (wshp T pty) (fun pa => dec_ty T true pty pa None false)).
    { intros pa0 s0 tr0 s0' a0 E0. destruct (proj1 (obj_all T) pty Hn None _ _ _ _ _ E0) as (v & -> & Wv & Hv). exists v. split; [reflexivity|]. split; [left; exact Wv|exact Hv]. }
    destruct pty as [p|name isp fs|name szf buf szp el|name szf buf szp inner|name ar]; try exact (Plain _ _ _ _ _ E).
    destruct (enc && isp && first_is_tpm2b fs) eqn:UE.
    - destruct fs as [|n t r|n el r|n sl u r]; try (cbn [first_is_tpm2b] in UE; rewrite andb_false_r in UE; discriminate).
      rewrite dec_ty_struct, UE in E. cbv zeta in E.
      cbn [named_ty named_fields field_names nodupb] in Hn. apply andb_prop in Hn as [Hd Hn]. apply andb_prop in Hn as [_ Hnr]. apply andb_prop in Hd as [Hd1 Hd2].
      assert (Hne : named_ty (t_enc_param T) = true) by (unfold msg_named in Hnm; apply andb_prop in Hnm as [_ Hl]; exact Hl).
      binv E tr1 s1 u1 X1. injection X1 as <- <- <-. binv E tr3 s3 vals X3. injection E as <- _ <-. binv X3 tr5 s5 ev X5.
      unfold dec_enc_param in X5.
      destruct (t_enc_param T) as [| |ename eszf ebuf eszp [ep| | | |]| |] eqn:Et; try discriminate.
      cbn [named_ty] in Hne. apply andb_prop in Hne as [Hne _].
      assert (Hfb : String.eqb eszf ebuf = false) by (destruct (String.eqb eszf ebuf); [discriminate|reflexivity]).
      destruct (tpm2b_list_obj ename eszf ebuf eszp (TyList (pname ep)) oe_leaf (wsh (TPrim ep)) (dec_prim true ep) (pchild pa' n) s tr5 s5 ev
                  ltac:(intros q s0 t0 s0' a0 E0; destruct (dec_prim_obj _ _ _ _ _ _ E0) as (z & -> & Hz); eexists; split; [reflexivity|split; [exists z; reflexivity|exact Hz]])
                  Hfb X5) as (szz & l & -> & Wl & Hev).
      destruct (proj1 (proj2 (obj_all T)) r Hnr pa' _ s5 _ s3 vals X3) as (new & -> & Hf & Wf & Hv).
      set (szv := VInt_ (pname eszp) szz) in *.
      set (x0 := VStruct_ (TyN ename) [(eszf, Some szv); (ebuf, Some (VList_ l))]) in *.
      set (V := rev (new ++ [(n, Some x0)])).
      assert (HND : NoDup (map fst V)).
      { unfold V. rewrite map_rev, map_app, Hf. cbn [map fst]. rewrite rev_app_distr, rev_involutive. cbn [rev app].
        constructor; [apply nodupb_notin; destruct (existsb _ _); [discriminate|reflexivity]|apply nodupb_NoDup, Hd2]. }
      assert (Hl0 : lookupS n V = Some (Some x0)).
      { apply (lookup_nodup _ n _ HND). unfold V. apply in_rev. rewrite rev_involutive. apply in_or_app. right. left. reflexivity. }
      assert (Henc : oe_enc_param T x0 (pchild pa' n) = evs_of tr5).
      { rewrite Hev. unfold oe_enc_param, x0. rewrite Et. cbn [lookupS]. rewrite String.eqb_refl.
        replace (String.eqb ebuf eszf) with false by (rewrite String.eqb_sym; symmetry; exact Hfb). rewrite String.eqb_refl. reflexivity. }
      assert (Hrest : evs_of tr = oe_fields T r V pa').
      { apply Hv. intros m o Hi. apply (lookup_nodup _ m o HND). unfold V. apply in_rev. rewrite rev_involutive. apply in_or_app. left. exact Hi. }
      exists (VStruct_ (TyEnc name) V). split; [reflexivity|].
      split; [right; unfold enc_shape; rewrite Et; exists szz, l, (rev new); split; [unfold V; rewrite rev_app_distr; reflexivity|split; assumption]|].
      unfold sev. cbn [app evs_of]. rewrite !app_nil_r, !evs_app, <- Henc, Hrest.
      change (oe_ty T (TStruct name isp (FPlain n t r)) (VStruct_ (TyEnc name) V) pa')
        with (ev_node pa' (TyEnc name) :: (match lookupS n V with Some (Some x) => oe_enc_param T x (pchild pa' n) | _ => [ev_node (pchild pa' n) (ty_id (t_enc_param T))] end) ++ oe_fields T r V pa').
      rewrite Hl0. reflexivity.
    - assert (Eq : dec_ty T true (TStruct name isp fs) pa' None enc s = dec_ty T true (TStruct name isp fs) pa' None false s).
      { rewrite !dec_ty_struct, UE. cbn [andb]. reflexivity. }
      rewrite Eq in E. exact (Plain _ _ _ _ _ E).
  Qed.

  Lemma auth_named_cmd : named_ty (t_auth_cmd T) = true.
  Proof. unfold msg_named in Hnm. apply andb_prop in Hnm as [Hl _]. apply andb_prop in Hl as [Hl _]. apply andb_prop in Hl as [_ Hl]. exact Hl. Qed.
  Lemma auth_named_rsp : named_ty (t_auth_rsp T) = true.
  Proof. unfold msg_named in Hnm. apply andb_prop in Hnm as [Hl _]. apply andb_prop in Hl as [_ Hl]. exact Hl. Qed.

  Lemma cmd_params_obj pa cid aid cc vl area enc s tr s' res :
    cmd_params_step T true pa cid aid cc vl area enc s = (tr, s', Ok res) ->
    exists pty pv, lookupZ cc (cmd_params T) = Some pty /\ cr_obj res = cmd_obj (("parameters", Some pv) :: vl) /\ wshp T pty pv /\
                   evs_of tr = oe_ty T pty pv (pchild pa "parameters") /\ cr_cc res = Some cc.
  Proof.
    intros E. unfold cmd_params_step in E. destruct (lookupZ cc (cmd_params T)) as [pty|] eqn:Lp; [|discriminate].
    rewrite try_field_strict in E. binv E tr1 s1 pv X1.
    destruct (params_obj pty enc (area_named cc pty ltac:(right; left; exact Lp)) _ _ _ _ _ X1) as (v & -> & Wv & Hv).
    binv E tr2 s2 u2 X2. pose proof (quiet_assert_done _ _ _ _ _ X2) as ->. injection E as <- _ <-.
    exists pty, v. split; [reflexivity|]. split; [reflexivity|]. split; [exact Wv|]. split; [rewrite !app_nil_r; exact Hv|reflexivity].
  Qed.

  (** C11 for commands *)
  Theorem command_obj_cc pa s tr s' res : dec_command T true pa s = (tr, s', Ok res) ->
    evs_of tr = oe_command T (cr_obj res) pa /\ exists cc, cr_cc res = Some cc /\ cmd_shape_cc T cc (cr_obj res).
  Proof.
    intros E. unfold dec_command in E.
    binv E tr1 s1 cid X1. injection X1 as <- _ _. binv E tr2 s2 aid X2. injection X2 as <- _ _.
    binv E tr3 s3 u3 X3. injection X3 as <- _ _. binv E tr4 s4 u4 X4. injection X4 as <- _ _. cbv zeta in E.
    rewrite try_field_strict in E. binv E tr5 s5 tagv X5. destruct (dec_prim_obj _ _ _ _ _ _ X5) as (tagz & -> & H5).
    rewrite try_field_strict in E. binv E tr6 s6 szv X6. destruct (dec_prim_obj _ _ _ _ _ _ X6) as (total & -> & H6).
    cbn [as_int] in E. binv E tr7 s7 u7 X7. pose proof (quiet_set_constraint _ _ _ _ _ _ _ X7) as ->.
    rewrite try_field_strict in E. binv E tr8 s8 ccv X8. destruct (dec_prim_obj _ _ _ _ _ _ X8) as (cc & -> & H8).
    cbn [as_int] in E. destruct (lookupZ cc (cmd_handles T)) as [hty|] eqn:Lh; [|discriminate].
    rewrite try_field_strict in E. binv E tr9 s9 hv X9.
    destruct (proj1 (obj_all T) hty (area_named cc hty ltac:(left; exact Lh)) None _ _ _ _ _ X9) as (hx & -> & W9 & H9).
    destruct (tagz =? st_sessions T).
    - rewrite try_field_strict in E. binv E tr10 s10 asv X10. destruct (dec_prim_obj _ _ _ _ _ _ X10) as (asz & -> & H10).
      cbv zeta in E. cbn [as_int] in E. binv E tr11 s11 u11 X11. pose proof (quiet_set_constraint _ _ _ _ _ _ _ X11) as ->.
      binv E tr12 s12 u12 X12. injection X12 as <- _ _.
      rewrite try_field_strict in E. binv E tr13 s13 area X13.
      destruct (sized_obj (oe_ty T (t_auth_cmd T)) (wsh (t_auth_cmd T)) (fun p => dec_ty T true (t_auth_cmd T) p None false) _ _ _ _ _ _ _
                  (proj1 (obj_all T) _ auth_named_cmd None) X13) as (l & -> & W13 & H13).
      cbv zeta in E. destruct (is_param_enc _ _ _) as [enc|]; [|discriminate].
      destruct (cmd_params_obj _ _ _ _ _ _ _ _ _ _ _ E) as (pty & pv & Lp & -> & Wp & Hp & Hcc). split.
      + unfold sev. cbn [app evs_of]. rewrite !evs_app, H5, H6, H8, H9, H10, H13, Hp. cbn [evs_of app].
        unfold oe_command, cmd_obj, oe_req, oe_opt. cbn [rev app lookupS String.eqb Ascii.eqb Bool.eqb as_int oe_leaf]. rewrite Lh, Lp.
        rewrite ?app_nil_r, <- ?app_assoc. reflexivity.
      + exists cc. split; [exact Hcc|]. unfold cmd_shape_cc, cmd_obj. cbn [rev app]. do 9 eexists. split; [exact Lh|]. split; [exact Lp|]. split; [exact W9|]. split; [exact Wp|].
        right. do 3 eexists. split; [exact W13|reflexivity].
    - destruct (cmd_params_obj _ _ _ _ _ _ _ _ _ _ _ E) as (pty & pv & Lp & -> & Wp & Hp & Hcc). split.
      + unfold sev. cbn [app evs_of]. rewrite !evs_app, H5, H6, H8, H9, Hp. cbn [evs_of app].
        unfold oe_command, cmd_obj, oe_req, oe_opt. cbn [rev app lookupS String.eqb Ascii.eqb Bool.eqb as_int oe_leaf]. rewrite Lh, Lp.
        rewrite ?app_nil_r, <- ?app_assoc. reflexivity.
      + exists cc. split; [exact Hcc|]. unfold cmd_shape_cc, cmd_obj. cbn [rev app]. do 9 eexists. split; [exact Lh|]. split; [exact Lp|]. split; [exact W9|]. split; [exact Wp|].
        left. reflexivity.
  Qed.

  Theorem command_obj pa s tr s' res : dec_command T true pa s = (tr, s', Ok res) -> evs_of tr = oe_command T (cr_obj res) pa /\ cmd_shape T (cr_obj res).
  Proof. intros E. destruct (command_obj_cc pa s tr s' res E) as (H1 & cc & _ & H2). split; [exact H1|exists cc; exact H2]. Qed.

  Lemma rsp_finish_quiet rid v s tr s' a : rsp_finish true rid v s = (tr, s', Ok a) -> tr = [] /\ a = rsp_obj v.
  Proof.
    intros E. unfold rsp_finish in E. binv E tr1 s1 u1 X1. pose proof (quiet_assert_done _ _ _ _ _ X1) as ->.
    binv E tr2 s2 u2 X2. unfold list_assert_done in X2. rewrite bind_get in X2. destruct (forallb _ _); [|discriminate].
    injection X2 as <- _ _. injection E as <- _ <-. split; reflexivity.
  Qed.

  (** C11 for responses *)
  Theorem response_obj pa cc enc s tr s' v : dec_response T true pa cc enc s = (tr, s', Ok v) -> evs_of tr = oe_response T cc v pa /\ rsp_shape T cc v.
  Proof.
    intros E. unfold dec_response in E.
    binv E tr1 s1 rid X1. injection X1 as <- _ _. binv E tr2 s2 pid X2. injection X2 as <- _ _.
    binv E tr3 s3 u3 X3. injection X3 as <- _ _. binv E tr4 s4 u4 X4. injection X4 as <- _ _. cbv zeta in E.
    rewrite try_field_strict in E. binv E tr5 s5 tagv X5. destruct (dec_prim_obj _ _ _ _ _ _ X5) as (tagz & -> & H5).
    rewrite try_field_strict in E. binv E tr6 s6 szv X6. destruct (dec_prim_obj _ _ _ _ _ _ X6) as (total & -> & H6).
    cbn [as_int] in E. binv E tr7 s7 u7 X7. pose proof (quiet_set_constraint _ _ _ _ _ _ _ X7) as ->.
    rewrite try_field_strict in E. binv E tr8 s8 rcv X8. destruct (dec_prim_obj _ _ _ _ _ _ X8) as (rc & -> & H8).
    cbn [as_int] in E.
    destruct (negb (rc =? rc_success T)).
    { destruct (rsp_finish_quiet _ _ _ _ _ _ E) as [-> ->]. split.
      - unfold sev. cbn [app evs_of]. rewrite !evs_app, H5, H6, H8. cbn [evs_of app].
        unfold oe_response, rsp_obj, oe_req, oe_opt. cbn [rev app lookupS String.eqb Ascii.eqb Bool.eqb oe_leaf]. reflexivity.
      - unfold rsp_shape, rsp_obj. cbn [rev app]. do 6 eexists. left. reflexivity. }
    destruct cc as [c|]; [|discriminate].
    destruct (lookupZ c (rsp_handles T)) as [hty|] eqn:Lh; [|discriminate].
    rewrite try_field_strict in E. binv E tr9 s9 hv X9. cbv zeta in E.
    destruct (params_obj hty enc (area_named c hty ltac:(right; right; left; exact Lh)) _ _ _ _ _ X9) as (hx & -> & W9 & H9).
    destruct (tagz =? st_sessions T).
    - rewrite try_field_strict in E. binv E tr10 s10 psv X10. destruct (dec_prim_obj _ _ _ _ _ _ X10) as (psz & -> & H10).
      cbn [as_int] in E. binv E tr11 s11 u11 X11. pose proof (quiet_set_constraint _ _ _ _ _ _ _ X11) as ->.
      binv E tr12 s12 u12 X12. injection X12 as <- _ _.
      unfold rsp_rest in E. destruct (lookupZ c (rsp_params T)) as [pty|] eqn:Lp; [|discriminate].
      rewrite try_field_strict in E. binv E tr13 s13 pv X13. cbv zeta in E.
      destruct (params_obj pty enc (area_named c pty ltac:(right; right; right; exact Lp)) _ _ _ _ _ X13) as (px & -> & W13 & H13).
      binv E tr14 s14 u14 X14. pose proof (quiet_assert_done _ _ _ _ _ X14) as ->.
      rewrite try_field_strict in E. binv E tr15 s15 area X15.
      destruct (sized_obj (oe_ty T (t_auth_rsp T)) (wsh (t_auth_rsp T)) (fun p => dec_ty T true (t_auth_rsp T) p None false) _ _ _ _ _ _ _
                  (proj1 (obj_all T) _ auth_named_rsp None) X15) as (l & -> & W15 & H15).
      destruct (is_param_enc _ _ _) as [e|]; [|discriminate].
      binv E tr16 s16 u16 X16. assert (tr16 = []) as -> by (destruct (Bool.eqb e enc); [injection X16 as <- _ _; reflexivity|discriminate]).
      destruct (rsp_finish_quiet _ _ _ _ _ _ E) as [-> ->]. split.
      + unfold sev. cbn [app evs_of]. rewrite !evs_app, H5, H6, H8, H9, H10, H13, H15. cbn [evs_of app].
        unfold oe_response, rsp_obj, oe_req, oe_opt. cbn [rev app lookupS String.eqb Ascii.eqb Bool.eqb oe_leaf]. rewrite Lh, Lp.
        rewrite ?app_nil_r, <- ?app_assoc. reflexivity.
      + unfold rsp_shape, rsp_obj. cbn [rev app]. do 6 eexists. right. do 5 eexists. split; [reflexivity|]. split; [exact Lh|]. split; [exact Lp|].
        split; [exact W9|]. split; [exact W13|]. right. do 3 eexists. split; [exact W15|reflexivity].
    - unfold rsp_rest in E. destruct (lookupZ c (rsp_params T)) as [pty|] eqn:Lp; [|discriminate].
      rewrite try_field_strict in E. binv E tr13 s13 pv X13. cbv zeta in E.
      destruct (params_obj pty enc (area_named c pty ltac:(right; right; right; exact Lp)) _ _ _ _ _ X13) as (px & -> & W13 & H13).
      binv E tr14 s14 u14 X14. injection X14 as <- _ _.
      destruct (rsp_finish_quiet _ _ _ _ _ _ E) as [-> ->]. split.
      + unfold sev. cbn [app evs_of]. rewrite !evs_app, H5, H6, H8, H9, H13. cbn [evs_of app].
        unfold oe_response, rsp_obj, oe_req, oe_opt. cbn [rev app lookupS String.eqb Ascii.eqb Bool.eqb oe_leaf]. rewrite Lh, Lp.
        rewrite ?app_nil_r, <- ?app_assoc. reflexivity.
      + unfold rsp_shape, rsp_obj. cbn [rev app]. do 6 eexists. right. do 5 eexists. split; [reflexivity|]. split; [exact Lh|]. split; [exact Lp|].
        split; [exact W9|]. split; [exact W13|]. left. reflexivity.
  Qed.
End MsgObj.

(** ---- through the byte pump *)
Lemma filter_events tr : existsb Agree.is_warning tr = false -> filter not_rd tr = map Ev (evs_of tr).
Proof.
  induction tr as [|[b|e|w] r IH]; cbn [existsb Agree.is_warning filter not_rd evs_of map orb]; intros H; try discriminate.
  - reflexivity.
  - apply IH, H.
  - rewrite IH by exact H. reflexivity.
Qed.

Definition root_named (T : tables) (r : root) : Prop :=
  match r with RType t => named_ty t = true | _ => True end.

(** C11 (model): whenever strict decoding accepts an input, the object it returns, turned back into events, is the
    decoded event list - same length, paths, declared types, values *)
Definition root_shape (T : tables) (r : root) (v : value) : Prop :=
  match r with
  | RType t => wsh t v
  | RCommand => cmd_shape T v
  | RResponse cc _ => rsp_shape T cc v
  | RStream => False
  end.

Theorem decoded_object_shape T r bs evs : msg_named T = true -> root_named T r -> is_stream_root r = false ->
  decode T true r bs = (evs, OAccepted) ->
  exists v, decode_obj T true r bs = Some v /\ map fst evs = map Ev (obj_to_events T r v) /\ root_shape T r v.
Proof.
  intros Hn Hr Hs D. unfold decode, pump in D. rewrite Hs in D. unfold decode_obj.
  destruct (dec_root T true r (init_st bs)) as [[tr s'] o] eqn:E.
  destruct (pump_go_nostream (Z.of_nat (List.length bs)) tr (mkP 0 None [])) as (ps & G & F & _). rewrite G in D.
  cbn [ps_out rev app map] in F.
  pose proof (Sim6.strict_is_quiet T r _ _ _ _ E) as Q.
  assert (Hev : map fst evs = map Ev (evs_of tr)).
  { rewrite <- (filter_events tr Q), <- F. destruct o as [a|e| |k|]; try discriminate.
    destruct (skipZ bs (ps_nrd ps)); [injection D as <-; reflexivity|discriminate]. }
  destruct o as [a|e| |k|]; try discriminate.
  rewrite Hev. destruct r as [t| |cc enc|]; try discriminate; cbn [dec_root obj_to_events root_shape] in *.
  - unfold bind in E. cbn [set_lst] in E. destruct (dec_ty T true t root_path None false _) as [[tr1 s1] o1] eqn:E1.
    destruct o1 as [a1|e1| |k1|]; try discriminate. injection E as <- _ <-.
    destruct (proj1 (obj_all T) t Hr None _ _ _ _ _ E1) as (v & -> & Wv & Hv). exists v. split; [reflexivity|]. split; [|exact Wv]. cbn [app]. rewrite Hv. reflexivity.
  - binv E tr1 s1 res X1. injection E as <- _ <-. exists (cr_obj res). split; [reflexivity|].
    destruct (command_obj T Hn _ _ _ _ _ X1) as [H1 H2]. split; [|exact H2]. rewrite app_nil_r, H1. reflexivity.
  - binv E tr1 s1 v X1. injection E as <- _ <-. exists v. split; [reflexivity|].
    destruct (response_obj T Hn _ _ _ _ _ _ _ X1) as [H1 H2]. split; [|exact H2]. rewrite app_nil_r, H1. reflexivity.
Qed.

Theorem decoded_object_reproduces_events T r bs evs : msg_named T = true -> root_named T r -> is_stream_root r = false ->
  decode T true r bs = (evs, OAccepted) ->
  exists v, decode_obj T true r bs = Some v /\ map fst evs = map Ev (obj_to_events T r v).
Proof.
  intros Hn Hr Hs D. destruct (decoded_object_shape T r bs evs Hn Hr Hs D) as (v & H1 & H2 & _). exists v. split; assumption.
Qed.
