(** Simulation, part 12: a stream decodes as its messages one by one (C09). *)
From Coq Require Import ZArith List String Bool Lia ZifyBool.
From TV Require Import Layout.Types Base.Bytes Model.Monad Model.Constraints Model.Ints Model.Decoder Model.Message Model.Pump
  Spec.Value Spec.Message Proofs.Sim1 Proofs.Sim2 Proofs.Sim3 Proofs.Sim4 Proofs.Sim5 Proofs.Sim6 Proofs.Sim7 Proofs.Sim8 Proofs.Sim9
  Proofs.Sim10 Proofs.Sim11.
Import ListNotations.
Open Scope string_scope.
Open Scope list_scope.
Open Scope Z_scope.

(** the emitted actions (events and warnings, without pull counts) depend on the items only *)
Fixpoint acts_of (l : list item) : list action :=
  match l with
  | [] => []
  | IPrim pa p z :: r => Ev (item_event (IPrim pa p z)) :: (if valid p z then [] else [Wn (EValue pa (pname p) z VSType)]) ++ acts_of r
  | INode pa t :: r => Ev (item_event (INode pa t)) :: acts_of r
  end.

Lemma stamp_acts len l : forall off, map fst (stamp_lenient len l off) = acts_of l.
Proof.
  induction l as [|[pa p z|pa t] r IH]; intros off; cbn [stamp_lenient acts_of map fst]; [reflexivity| |].
  - rewrite map_app, IH. destruct (valid p z); reflexivity.
  - rewrite IH. reflexivity.
Qed.

Lemma acts_app a b : acts_of (a ++ b) = acts_of a ++ acts_of b.
Proof.
  induction a as [|[pa p z|pa t] r IH]; cbn [acts_of app]; [reflexivity| |].
  - rewrite IH, <- app_assoc. reflexivity.
  - rewrite IH. reflexivity.
Qed.

Lemma split_at_exact n body x : blen body = n -> split_at n (body ++ x) = Some (body, x).
Proof.
  intros H. unfold split_at. replace ((n <? 0) || (Z.of_nat (List.length (body ++ x)) <? n)) with false
    by (rewrite app_length; unfold blen in H; lia).
  replace (Z.to_nat n) with (List.length body + 0)%nat by (unfold blen in H; lia).
  rewrite firstn_app_2, skipn_app. cbn [firstn]. rewrite app_nil_r.
  replace (List.length body + 0 - List.length body)%nat with 0%nat by lia. rewrite skipn_all2 by lia. reflexivity.
Qed.

Section Ext.
  Variable T : tables.

  (** a whole command / response stays what it is when more bytes follow *)
  Lemma cmd_ext pa cb v ci x : sp_command T pa cb = Some (v, ci, []) -> sp_command T pa (cb ++ x) = Some (v, ci, x).
  Proof.
    unfold sp_command. intros H.
    destruct (sp_prim (p_cmd_tag T) _ cb) as [[[tagv tag] r1]|] eqn:Ep1; [|discriminate].
    destruct (sp_prim (p_size32 T) _ r1) as [[[szv total] r2]|] eqn:Ep2; [|discriminate].
    destruct (split_at _ r2) as [[body rest0]|] eqn:Es; [|discriminate].
    destruct (sp_prim_some _ _ _ _ _ _ Ep1) as (h1 & -> & Hl1 & _ & -> & ->).
    destruct (sp_prim_some _ _ _ _ _ _ Ep2) as (h2 & -> & Hl2 & _ & -> & ->).
    destruct (split_at_some _ _ _ _ Es) as (-> & Hlb & _).
    assert (Hrest : rest0 = []).
    { destruct (sp_prim (p_cc T) _ body) as [[[ccv cc] r3]|]; [|discriminate].
      destruct (lookupZ cc (cmd_handles T)); [|discriminate]. destruct (lookupZ cc (cmd_params T)); [|discriminate].
      destruct (sp_ty T _ _ None false r3) as [[hv r4]|]; [|discriminate].
      destruct (_ =? st_sessions T).
      - destruct (sp_prim _ _ r4) as [[[asv asz] r5]|]; [|discriminate]. destruct (split_at asz r5) as [[ar r6]|]; [|discriminate].
        destruct (sp_until_empty _ _ _ _ _); [|discriminate]. destruct (sp_ty T _ _ None _ r6) as [[pv [|? ?]]|]; try discriminate.
        injection H as _ _ ->. reflexivity.
      - destruct (sp_ty T _ _ None _ r4) as [[pv [|? ?]]|]; try discriminate. injection H as _ _ ->. reflexivity. }
    subst rest0. rewrite app_nil_r in *.
    rewrite <- app_assoc, (sp_prim_here _ _ h1 _ Hl1). rewrite <- app_assoc, (sp_prim_here _ _ h2 _ Hl2).
    rewrite (split_at_exact _ body x Hlb).
    destruct (sp_prim (p_cc T) _ body) as [[[ccv cc] r3]|]; [|discriminate].
    destruct (lookupZ cc (cmd_handles T)); [|discriminate]. destruct (lookupZ cc (cmd_params T)); [|discriminate].
    destruct (sp_ty T _ _ None false r3) as [[hv r4]|]; [|discriminate].
    destruct (_ =? st_sessions T).
    - destruct (sp_prim _ _ r4) as [[[asv asz] r5]|]; [|discriminate]. destruct (split_at asz r5) as [[ar r6]|]; [|discriminate].
      destruct (sp_until_empty _ _ _ _ _); [|discriminate]. destruct (sp_ty T _ _ None _ r6) as [[pv [|? ?]]|]; try discriminate.
      injection H as <- <-. reflexivity.
    - destruct (sp_ty T _ _ None _ r4) as [[pv [|? ?]]|]; try discriminate. injection H as <- <-. reflexivity.
  Qed.

  Lemma rsp_ext pa cc enc rb v x : sp_response T pa cc enc rb = Some (v, []) -> sp_response T pa cc enc (rb ++ x) = Some (v, x).
  Proof.
    unfold sp_response. intros H.
    destruct (sp_prim (p_rsp_tag T) _ rb) as [[[tagv tag] r1]|] eqn:Ep1; [|discriminate].
    destruct (sp_prim (p_size32 T) _ r1) as [[[szv total] r2]|] eqn:Ep2; [|discriminate].
    destruct (split_at _ r2) as [[body rest0]|] eqn:Es; [|discriminate].
    destruct (sp_prim_some _ _ _ _ _ _ Ep1) as (h1 & -> & Hl1 & _ & -> & ->).
    destruct (sp_prim_some _ _ _ _ _ _ Ep2) as (h2 & -> & Hl2 & _ & -> & ->).
    destruct (split_at_some _ _ _ _ Es) as (-> & Hlb & _).
    assert (Hrest : rest0 = []).
    { destruct (sp_prim (p_rc T) _ body) as [[[rcv rc] r3]|]; [|discriminate].
      destruct (negb _).
      - destruct r3; [|discriminate]. injection H as _ ->. reflexivity.
      - destruct (lookupZ cc (rsp_handles T)); [|discriminate]. destruct (lookupZ cc (rsp_params T)); [|discriminate].
        destruct (sp_ty T _ _ None false r3) as [[hv r4]|]; [|discriminate].
        destruct (_ =? st_sessions T).
        + destruct (sp_prim _ _ r4) as [[[psv psz] r5]|]; [|discriminate]. destruct (split_at psz r5) as [[pr ar]|]; [|discriminate].
          destruct (sp_ty T _ _ None enc pr) as [[pv [|? ?]]|]; try discriminate.
          destruct (sp_until_empty _ _ _ _ _); [|discriminate]. destruct (Bool.eqb enc _); [|discriminate].
          injection H as _ ->. reflexivity.
        + destruct enc; [discriminate|]. destruct (sp_ty T _ _ None false r4) as [[pv [|? ?]]|]; try discriminate.
          injection H as _ ->. reflexivity. }
    subst rest0. rewrite app_nil_r in *.
    rewrite <- app_assoc, (sp_prim_here _ _ h1 _ Hl1). rewrite <- app_assoc, (sp_prim_here _ _ h2 _ Hl2).
    rewrite (split_at_exact _ body x Hlb).
    destruct (sp_prim (p_rc T) _ body) as [[[rcv rc] r3]|]; [|discriminate].
    destruct (negb _).
    - destruct r3; [|discriminate]. injection H as <-. reflexivity.
    - destruct (lookupZ cc (rsp_handles T)); [|discriminate]. destruct (lookupZ cc (rsp_params T)); [|discriminate].
      destruct (sp_ty T _ _ None false r3) as [[hv r4]|]; [|discriminate].
      destruct (_ =? st_sessions T).
      + destruct (sp_prim _ _ r4) as [[[psv psz] r5]|]; [|discriminate]. destruct (split_at psz r5) as [[pr ar]|]; [|discriminate].
        destruct (sp_ty T _ _ None enc pr) as [[pv [|? ?]]|]; try discriminate.
        destruct (sp_until_empty _ _ _ _ _); [|discriminate]. destruct (Bool.eqb enc _); [|discriminate].
        injection H as <-. reflexivity.
      + destruct enc; [discriminate|]. destruct (sp_ty T _ _ None false r4) as [[pv [|? ?]]|]; try discriminate.
        injection H as <-. reflexivity.
  Qed.

  (** [bs] is the concatenation of whole messages: command, the response to it (decoded with that command's code
      and the encryption its sessions ask for), command, ...; the last command may lack its response *)
  Inductive split_as : list Z -> list (root * list Z * sv) -> Prop :=
  | split_nil : split_as [] []
  | split_last cb c ci : sp_command T root_path cb = Some (c, ci, []) -> cb <> [] -> split_as cb [(RCommand, cb, c)]
  | split_pair cb c ci rb rv rest ps :
      sp_command T root_path cb = Some (c, ci, []) -> cb <> [] ->
      sp_response T root_path (ci_cc ci) (ci_rsp_enc ci) rb = Some (rv, []) -> rb <> [] ->
      split_as rest ps ->
      split_as (cb ++ rb ++ rest) ((RCommand, cb, c) :: (RResponse (Some (ci_cc ci)) (ci_rsp_enc ci), rb, rv) :: ps).

  Lemma split_stream bs ps : split_as bs ps -> forall fuel, (List.length bs <= fuel)%nat ->
    sp_stream T fuel root_path bs = Some (map snd ps).
  Proof.
    induction 1 as [|cb c ci Hc Hn|cb c ci rb rv rest ps Hc Hn Hr Hrn Hs IH]; intros fuel Hf.
    - destruct fuel; reflexivity.
    - destruct cb as [|b0 cb']; [contradiction|]. destruct fuel as [|fuel]; [cbn in Hf; lia|].
      cbn [sp_stream]. rewrite Hc. reflexivity.
    - destruct cb as [|b0 cb']; [contradiction|]. destruct fuel as [|fuel]; [cbn in Hf; lia|].
      change ((b0 :: cb') ++ rb ++ rest) with (b0 :: (cb' ++ rb ++ rest)). cbn [sp_stream].
      change (b0 :: cb' ++ rb ++ rest) with ((b0 :: cb') ++ (rb ++ rest)).
      rewrite (cmd_ext _ _ _ _ (rb ++ rest) Hc).
      destruct rb as [|x rb']; [contradiction|]. cbn [app].
      change (x :: rb' ++ rest) with ((x :: rb') ++ rest). rewrite (rsp_ext _ _ _ _ _ rest Hr).
      rewrite (IH fuel) by (cbn [List.length] in Hf; rewrite !app_length in Hf; cbn [List.length] in Hf; lia). reflexivity.
  Qed.
End Ext.

(** C09: the events of a stream are the events of its messages decoded one by one, in order *)
Theorem stream_is_its_messages T abort bs ps :
  msg_tables_ok T = true -> split_as T bs ps -> forallb (fun p => ok_leaves abort (snd p)) ps = true ->
  Z.of_nat (List.length bs) < Z.pos stream_bound ->
  map fst (fst (decode T abort RStream bs)) =
  flat_map (fun p => map fst (fst (decode T abort (fst (fst p)) (snd (fst p))))) ps.
Proof.
  intros Ht Hs AV Hb.
  assert (AV' : forallb (ok_leaves abort) (map snd ps) = true) by (rewrite forallb_forall in *; intros v Hv; apply in_map_iff in Hv as (p & <- & Hp); apply (AV p Hp)).
  rewrite (stream_decodes_in_mode T abort Ht bs (map snd ps) (split_stream T bs ps Hs _ (le_n _)) AV' Hb).
  cbn [fst]. rewrite stamp_acts. clear Hb AV'.
  induction Hs as [|cb c ci Hc Hn|cb c ci rb rv rest ps Hc Hn Hr Hrn Hs IH]; [reflexivity| |].
  - cbn [map snd flat_map fst forallb] in *. rewrite !app_nil_r. rewrite andb_true_r in AV.
    rewrite (any_root_in_mode T abort RCommand cb [c] Ht ltac:(intros X; discriminate X) ltac:(cbn [sp_root]; rewrite Hc; reflexivity)
               ltac:(cbn [forallb]; rewrite AV; reflexivity)).
    cbn [fst flat_map]. rewrite stamp_acts, app_nil_r. reflexivity.
  - cbn [map snd flat_map fst forallb] in *. apply andb_prop in AV as [AVc AV]. apply andb_prop in AV as [AVr AV].
    rewrite !acts_app, (IH AV).
    rewrite (any_root_in_mode T abort RCommand cb [c] Ht ltac:(intros X; discriminate X) ltac:(cbn [sp_root]; rewrite Hc; reflexivity)
               ltac:(cbn [forallb]; rewrite AVc; reflexivity)).
    rewrite (any_root_in_mode T abort (RResponse (Some (ci_cc ci)) (ci_rsp_enc ci)) rb [rv] Ht ltac:(intros X; discriminate X)
               ltac:(cbn [sp_root]; rewrite Hr; reflexivity) ltac:(cbn [forallb]; rewrite AVr; reflexivity)).
    cbn [fst flat_map]. rewrite !stamp_acts, !app_nil_r. reflexivity.
Qed.
