(** C14: the pretty printer never fails on decoder output - part 2: paths, scopes and the compositional judgement. *)
From Coq Require Import ZArith List String Bool Lia.
From TV Require Import Layout.Types Model.Monad Model.Ints Model.Pretty Proofs.PrintSafe1.
Import ListNotations.
Open Scope list_scope.

(** ---- [is_child] on paths written as a common prefix and two continuations *)
Lemma node_eqb_refl a : node_eqb a a = true.
Proof. unfold node_eqb. rewrite String.eqb_refl. destruct (pn_idx a); [apply Z.eqb_refl|reflexivity]. Qed.

Lemma nodes_eqb_refl p : nodes_eqb p p = true.
Proof. induction p as [|a p IH]; [reflexivity|]. cbn [nodes_eqb]. rewrite node_eqb_refl, IH. reflexivity. Qed.

Lemma nodes_eqb_app_same pa x y : nodes_eqb (pa ++ x) (pa ++ y) = nodes_eqb x y.
Proof. induction pa as [|a pa IH]; [reflexivity|]. cbn [app nodes_eqb]. rewrite node_eqb_refl, IH. reflexivity. Qed.

Lemma last_node_snoc p a : last_node (p ++ [a]) = a.
Proof. unfold last_node. rewrite rev_app_distr. reflexivity. Qed.

Lemma removelast_snoc {A} (p : list A) a : removelast (p ++ [a]) = p.
Proof. apply removelast_last. Qed.

Lemma is_child_snoc p a q b : is_child (p ++ [a]) (q ++ [b]) = nodes_eqb p q && String.eqb (pn_name a) (pn_name b).
Proof. unfold is_child. rewrite !removelast_snoc, !last_node_snoc. reflexivity. Qed.

Lemma snoc_of_cons {A} (a : A) u : exists f l, a :: u = f ++ [l] /\ (u = [] -> f = [] /\ l = a) /\ (u <> [] -> exists f', f = a :: f').
Proof.
  destruct (@exists_last _ (a :: u)) as (f & l & E); [discriminate|]. exists f, l. split; [exact E|]. split.
  - intros ->. destruct f as [|x f]; [injection E as ->; split; reflexivity|]. destruct f; discriminate.
  - intros Hu. destruct f as [|x f]; [destruct u; [contradiction|discriminate]|]. injection E as -> _. exists f. reflexivity.
Qed.

(** continuations that start with differently named nodes, or with different nodes when the first path goes on *)
Lemma child_sep pa a u b v :
  pn_name a <> pn_name b \/ (node_eqb a b = false /\ u <> []) -> is_child (pa ++ a :: u) (pa ++ b :: v) = false.
Proof.
  intros H.
  destruct (snoc_of_cons a u) as (f1 & l1 & E1 & H10 & H11). destruct (snoc_of_cons b v) as (f2 & l2 & E2 & H20 & H21).
  rewrite E1, E2, !app_assoc, is_child_snoc, nodes_eqb_app_same.
  destruct u as [|u0 u]; destruct v as [|v0 v].
  - destruct (H10 eq_refl) as [-> ->]. destruct (H20 eq_refl) as [-> ->]. cbn [nodes_eqb andb].
    destruct H as [H|[_ H]]; [|contradiction]. apply String.eqb_neq, H.
  - destruct (H10 eq_refl) as [-> ->]. destruct (H21 ltac:(discriminate)) as (f' & ->). reflexivity.
  - destruct (H20 eq_refl) as [-> ->]. destruct (H11 ltac:(discriminate)) as (f' & ->). reflexivity.
  - destruct (H11 ltac:(discriminate)) as (f1' & ->). destruct (H21 ltac:(discriminate)) as (f2' & ->). cbn [nodes_eqb].
    replace (node_eqb a b) with false; [reflexivity|]. symmetry. destruct H as [H|[H _]]; [|exact H].
    unfold node_eqb. apply String.eqb_neq in H. rewrite H. reflexivity.
Qed.

(** a longer path is not a child of ... a shorter one's position: a proper extension of [pa] against [pa] itself *)
Lemma child_longer pa a u : pa <> [] -> is_child (pa ++ a :: u) pa = false.
Proof.
  intros Hp. destruct (exists_last Hp) as (p0 & l0 & ->). destruct (snoc_of_cons a u) as (f1 & l1 & E1 & _).
  rewrite E1, app_assoc, is_child_snoc.
  replace (nodes_eqb ((p0 ++ [l0]) ++ f1) p0) with false; [reflexivity|]. symmetry.
  rewrite <- (app_nil_r p0) at 2. rewrite <- app_assoc, nodes_eqb_app_same. reflexivity.
Qed.

Lemma child_of_index pa n i : is_child (pa ++ [mkNode n None]) (pa ++ [mkNode n (Some i)]) = true.
Proof. rewrite is_child_snoc, nodes_eqb_refl. cbn [pn_name]. rewrite String.eqb_refl. reflexivity. Qed.

(** ---- scopes *)
Definition scope := path -> Prop.
Definition sub (A B : scope) : Prop := forall q, A q -> B q.
Definition none : scope := fun _ => False.
Definition only (p : path) : scope := fun q => q = p.
Definition Ext (pa : path) : scope := fun q => exists rest, q = pa ++ rest.                      (* [pa] and below *)
Definition Below (pa : path) : scope := fun q => exists a rest, q = pa ++ a :: rest.            (* strictly below *)
Definition Field (pa : path) (n : string) : scope := fun q => exists idx rest, q = pa ++ mkNode n idx :: rest.
Definition Fields (pa : path) (ns : list string) : scope := fun q => exists n, In n ns /\ Field pa n q.
Definition sep (Ax B : scope) : Prop := forall pl q, Ax pl -> B q -> is_child pl q = false.

Lemma sub_refl A : sub A A. Proof. intros q H; exact H. Qed.
Lemma sub_trans A B C : sub A B -> sub B C -> sub A C. Proof. intros H1 H2 q H; apply H2, H1, H. Qed.
Lemma sub_none A : sub none A. Proof. intros q []. Qed.
Lemma sep_none B : sep none B. Proof. intros pl q []. Qed.
Lemma sep_sub A A' B B' : sub A' A -> sub B' B -> sep A B -> sep A' B'.
Proof. intros H1 H2 H pl q Ha Hb. apply H; [apply H1, Ha|apply H2, Hb]. Qed.

Lemma Field_Below pa n : sub (Field pa n) (Below pa).
Proof. intros q (idx & rest & ->). exists (mkNode n idx), rest. reflexivity. Qed.
Lemma Below_Ext pa : sub (Below pa) (Ext pa).
Proof. intros q (a & rest & ->). exists (a :: rest). reflexivity. Qed.
Lemma only_Ext pa : sub (only pa) (Ext pa).
Proof. intros q ->. exists []. rewrite app_nil_r. reflexivity. Qed.
Lemma Fields_Below pa ns : sub (Fields pa ns) (Below pa).
Proof. intros q (n & _ & H). apply (Field_Below pa n q H). Qed.
Lemma Field_Fields pa n ns : In n ns -> sub (Field pa n) (Fields pa ns).
Proof. intros Hin q H. exists n. split; assumption. Qed.
Lemma Fields_mono pa ns ms : (forall n, In n ns -> In n ms) -> sub (Fields pa ns) (Fields pa ms).
Proof. intros H q (n & Hn & Hq). exists n. split; [apply H, Hn|exact Hq]. Qed.
Lemma Ext_child_Field pa n : sub (Ext (pchild pa n)) (Field pa n).
Proof. intros q (rest & ->). exists None, rest. unfold pchild. rewrite <- app_assoc. reflexivity. Qed.
Lemma Ext_index_Field pa n i : sub (Ext (pa ++ [mkNode n (Some i)])) (Field pa n).
Proof. intros q (rest & ->). exists (Some i), rest. rewrite <- app_assoc. reflexivity. Qed.

Lemma sep_Field pa n m : n <> m -> sep (Field pa n) (Field pa m).
Proof. intros Hn pl q (i1 & r1 & ->) (i2 & r2 & ->). apply child_sep. left. exact Hn. Qed.

Lemma sep_Field_Fields pa n ms : ~ In n ms -> sep (Field pa n) (Fields pa ms).
Proof. intros Hn pl q Hp (m & Hm & Hq). apply (sep_Field pa n m); [intros ->; contradiction|exact Hp|exact Hq]. Qed.

(** elements of one list: what lies strictly below element [i] against element [j] and below *)
Lemma sep_elems pa n i j : i <> j -> sep (Below (pa ++ [mkNode n (Some i)])) (Ext (pa ++ [mkNode n (Some j)])).
Proof.
  intros Hij pl q (a & r1 & ->) (r2 & ->). rewrite <- !app_assoc. cbn [app]. apply child_sep. right. split; [|discriminate].
  unfold node_eqb. cbn [pn_name pn_idx]. rewrite String.eqb_refl. cbn [andb]. apply Z.eqb_neq, Hij.
Qed.

(** ---- the judgement *)
Definition tpath (t : tok) : option path := match t with TW => None | TP q | TS q | TL q | TN q => Some q end.

Definition foreign (Sv : scope) (st : ast) : Prop :=
  match st with AInB pl => forall q, Sv q -> is_child pl q = false | _ => True end.
Definition belongs (Sx : scope) (st : ast) : Prop := match st with AInB pl => Sx pl | _ => True end.

(** [Sv]: where the events lie; [Sx]: which byte buffers may be left open at the end *)
Definition G (Sv Sx : scope) (ts : list tok) : Prop :=
  (forall t q, In t ts -> tpath t = Some q -> Sv q) /\
  forall st, foreign Sv st -> exists st', arun st ts = Some st' /\ (st' = st \/ belongs Sx st').

Lemma foreign_sub A B st : sub A B -> foreign B st -> foreign A st.
Proof. intros H. destruct st as [|pl|pe]; cbn [foreign]; auto. Qed.
Lemma belongs_sub A B st : sub A B -> belongs A st -> belongs B st.
Proof. intros H. destruct st as [|pl|pe]; cbn [belongs]; auto. Qed.

Lemma G_weaken A Ax C Cx ts : sub A C -> sub Ax Cx -> G A Ax ts -> G C Cx ts.
Proof.
  intros H1 H2 [Hp Hr]. split; [intros t q Hi Ht; apply H1, (Hp t q Hi Ht)|].
  intros st Hf. destruct (Hr st (foreign_sub _ _ _ H1 Hf)) as (st' & E & Hx). exists st'. split; [exact E|].
  destruct Hx as [->|Hb]; [left; reflexivity|right; apply (belongs_sub _ _ _ H2 Hb)].
Qed.

Lemma G_nil Sv Sx : G Sv Sx [].
Proof. split; [intros t q []|]. intros st _. exists st. split; [reflexivity|left; reflexivity]. Qed.

Lemma G_app A Ax B Bx a b : sep Ax B -> G A Ax a -> G B Bx b ->
  G (fun q => A q \/ B q) (fun q => Ax q \/ Bx q) (a ++ b).
Proof.
  intros Hs [Hpa Hra] [Hpb Hrb]. split.
  - intros t q Hi Ht. apply in_app_or in Hi as [Hi|Hi]; [left; apply (Hpa t q Hi Ht)|right; apply (Hpb t q Hi Ht)].
  - intros st Hf. rewrite arun_app.
    destruct (Hra st (foreign_sub _ _ _ (fun q H => or_introl H) Hf)) as (st1 & E1 & H1). rewrite E1.
    assert (Hf1 : foreign B st1).
    { destruct H1 as [->|H1]; [apply (foreign_sub _ _ _ (fun q H => or_intror H) Hf)|].
      destruct st1 as [|pl|pe]; cbn [foreign belongs] in *; [exact I| |exact I]. intros q Hq. apply (Hs pl q H1 Hq). }
    destruct (Hrb st1 Hf1) as (st2 & E2 & H2). exists st2. split; [exact E2|].
    destruct H2 as [->|H2]; [|right; apply (belongs_sub _ _ _ (fun q H => or_intror H) H2)].
    destruct H1 as [->|H1]; [left; reflexivity|right; apply (belongs_sub _ _ _ (fun q H => or_introl H) H1)].
Qed.

(** the form used everywhere: both parts inside a common scope *)
Lemma G_seq A Ax B Bx C Cx a b : sub A C -> sub B C -> sub Ax Cx -> sub Bx Cx -> sep Ax B -> G A Ax a -> G B Bx b -> G C Cx (a ++ b).
Proof.
  intros HA HB HAx HBx Hs Ga Gb. eapply G_weaken; [| |apply (G_app A Ax B Bx a b Hs Ga Gb)].
  - intros q [H|H]; [apply HA, H|apply HB, H].
  - intros q [H|H]; [apply HAx, H|apply HBx, H].
Qed.

Lemma G_warnings Sv Sx ts : Forall (fun t => t = TW) ts -> G Sv Sx ts.
Proof.
  intros H. split.
  - intros t q Hi Ht. rewrite Forall_forall in H. rewrite (H t Hi) in Ht. discriminate.
  - intros st _. exists st. split; [|left; reflexivity]. induction H as [|t r -> _ IH]; [reflexivity|exact IH].
Qed.

(** one event that is not the parent of a byte buffer *)
Lemma G_one t q : tpath t = Some q -> (forall p, t <> TL p) -> G (only q) none [t].
Proof.
  intros Ht Hl. split.
  - intros t' q' [<-|[]] Ht'. rewrite Ht in Ht'. injection Ht' as <-. reflexivity.
  - intros st Hf. destruct t as [|p|p|p|p]; try discriminate; injection Ht as ->; try (exfalso; apply (Hl q); reflexivity).
    all: destruct st as [|pl|pe]; cbn [arun astep foreign] in *.
    all: try (rewrite (Hf q eq_refl)).
    all: try (destruct (is_child pe q)).
    all: eexists; (split; [reflexivity|]); try (left; reflexivity); right; exact I.
Qed.

(** the parent of a byte buffer and its elements *)
Definition buffer_elem (X : path) (t : tok) : Prop :=
  t = TW \/ exists p n i, X = p ++ [mkNode n None] /\ t = TP (p ++ [mkNode n (Some i)]).

Lemma elems_run_in p n ts : Forall (buffer_elem (p ++ [mkNode n None])) ts ->
  arun (AInB (p ++ [mkNode n None])) ts = Some (AInB (p ++ [mkNode n None])).
Proof.
  induction 1 as [|t r Ht _ IH]; [reflexivity|]. cbn [arun]. destruct Ht as [->|(p' & n' & i & E & ->)]; [exact IH|].
  apply app_inj_tail in E as [<- E]. injection E as <-. cbn [astep]. rewrite child_of_index. exact IH.
Qed.

Lemma elems_run_out X ts : Forall (buffer_elem X) ts -> forall st, (forall pl, st <> AInB pl) ->
  exists st', arun st ts = Some st' /\ (forall pl, st' <> AInB pl).
Proof.
  induction 1 as [|t r Ht _ IH]; intros st Hst; [exists st; split; [reflexivity|exact Hst]|].
  cbn [arun]. destruct Ht as [->|(p' & n' & i & E & ->)]; [apply IH, Hst|].
  destruct st as [|pl|pe]; cbn [astep]; [apply IH; discriminate|exfalso; apply (Hst pl); reflexivity|].
  destruct (is_child pe _); apply IH; discriminate.
Qed.

Lemma G_buffer p n ts : Forall (buffer_elem (p ++ [mkNode n None])) ts ->
  G (Field p n) (only (p ++ [mkNode n None])) (TL (p ++ [mkNode n None]) :: ts).
Proof.
  intros H. split.
  - intros t q [<-|Hi] Ht.
    + injection Ht as <-. exists None, []. reflexivity.
    + rewrite Forall_forall in H. destruct (H t Hi) as [->|(p' & n' & i & E & ->)]; [discriminate|].
      injection Ht as <-. apply app_inj_tail in E as [<- E]. injection E as <-. exists (Some i), []. reflexivity.
  - intros st Hf. cbn [arun]. destruct st as [|pl|pe]; cbn [astep].
    + rewrite (elems_run_in p n ts H). eexists. split; [reflexivity|]. right. reflexivity.
    + cbn [foreign] in Hf. rewrite (Hf (p ++ [mkNode n None])) by (exists None, []; reflexivity).
      destruct (elems_run_out (p ++ [mkNode n None]) ts H ATop ltac:(discriminate)) as (st' & E & Hn). exists st'. split; [exact E|]. right.
      destruct st' as [|pl'|pe']; cbn [belongs]; auto. exfalso. apply (Hn pl'). reflexivity.
    + assert (Hx : forall s0, (s0 = AInE pe \/ s0 = ATop) -> exists st', arun s0 ts = Some st' /\ (st' = AInE pe \/ belongs (only (p ++ [mkNode n None])) st')).
      { intros s0 Hs0. destruct (elems_run_out (p ++ [mkNode n None]) ts H s0) as (st' & E & Hn); [destruct Hs0 as [->| ->]; discriminate|].
        exists st'. split; [exact E|]. right. destruct st' as [|pl'|pe']; cbn [belongs]; auto. exfalso. apply (Hn pl'). reflexivity. }
      destruct (is_child pe (p ++ [mkNode n None])); [apply Hx; left; reflexivity|apply Hx; right; reflexivity].
Qed.
