(** Extraction of the executable model (and the tables it runs on) to OCaml.
    Directives used: those of ExtrOcamlBasic and ExtrOcamlString only (bool, option, unit, list,
    prod, sumbool -> native; ascii -> char, string -> char list); no Extract Constant of our own;
    Z, positive, nat stay the extracted inductives. *)
From Coq Require Import ZArith List String.
From Coq Require Import ExtrOcamlBasic ExtrOcamlString.
From TV Require Import Layout.Types gen.Tables gen.Pinned Model.Monad Model.Ints Model.Decoder Model.Message Model.Pump Model.Show.

Definition tables_current : tables := Tables.T.
Definition tables_pinned : tables := Pinned.T.
Definition prims_current : list prim := Tables.all_prims.
Definition prims_pinned : list prim := Pinned.all_prims.

Extraction "Extract/model.ml"
  tables_current tables_pinned prims_current prims_pinned
  run_decode run_obj find_type
  prim_text prim_bytes valid representable pname pwidth psigned pkind_
  hex2 dec_string show_hex_
  RType RCommand RResponse RStream.
