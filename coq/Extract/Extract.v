(** Extraction of the executable model (and the tables it runs on) to OCaml.
    Directives used: those of ExtrOcamlBasic and ExtrOcamlString only (bool, option, unit, list,
    prod, sumbool -> native; ascii -> char, string -> char list); no Extract Constant of our own;
    Z, positive, nat stay the extracted inductives. *)
From Coq Require Import ZArith List String.
From Coq Require Import ExtrOcamlBasic ExtrOcamlString.
Import ListNotations.
From TV Require Import Layout.Types gen.Tables gen.Pinned Model.Monad Model.Ints Model.Decoder Model.Message Model.Pump Model.Show Model.Attr Model.RC Model.Frontends Model.Pretty Model.Cli Spec.Value Spec.Message.

Definition tables_current : tables := Tables.T.
Definition tables_pinned : tables := Pinned.T.
Definition prims_current : list prim := Tables.all_prims.
Definition prims_pinned : list prim := Pinned.all_prims.

(** the specification, rendered like a decode result: expected events + ACC, or the expected value error *)
Definition run_spec (T : tables) (r : root) (input : list Z) : string :=
  match spec_events T r input with
  | Some evs => show_result (evs, OAccepted)
  | None =>
      match spec_value_error T r input with
      | Some res => show_result res
      | None => "NOTWF"%string
      end
  end.

(** attribute word: per field  name=accessor:row *)
Definition run_attr (p : prim) (v : Z) : string :=
  let nbits := Z.to_nat (8 * pwidth p) in
  sconcat ","%string
    (map (fun nm => String.append (fst nm) (String.append "="%string (String.append
            (match accessor nbits (snd nm) v with Some a => dec_string a | None => "LOOP"%string end)
            (String.append ":"%string (show_row (bit_row nbits (snd nm) v))))))
         (attr_masks p)).

(** response code: text|name:mask:details,... *)
Definition run_rc (cur : bool) (v : Z) : string :=
  let T := if cur then Tables.T else Pinned.T in
  let d := if cur then Tables.rc_default_name else Pinned.rc_default_name in
  String.append (rc_text T d v) (String.append "|"%string
    (sconcat ","%string (map (fun r => String.append (fst (fst r)) (String.append ":"%string
        (String.append (dec_string (snd (fst r))) (String.append ":"%string (snd r))))) (rc_rows T d v)))).
Definition run_rc_spec (v : Z) : string := rc_render Pinned.T Pinned.rc_default_name (classify v).

(** front-ends: bytes|ok *)
Definition show_parsed (p : parsed) : string :=
  String.append (show_hex_ (p_bytes p)) (if p_ok p then "|1"%string else "|0"%string).
Definition run_fe_hex (s : list Z) : string := show_parsed (parse_hex s).
Definition run_fe_swtpm (s : list Z) : string := show_parsed (parse_swtpm s).
Definition run_fe_auto (s : list Z) : string :=
  match detect s with FPcapng => "pcapng" | FHex => "hex" | FBinary => "binary" | FTooShort => "short" end%string.
Definition run_fe_pcap (ps : list (list Z)) : string := show_hex_ (pcap_bytes ps).

(** the lenient field-by-field reading (validity ignored), rendered as events + ACC *)
Definition run_spec_lenient (T : tables) (r : root) (input : list Z) : string :=
  match sp_root T r input with
  | Some vs => show_result (stamp_items (Z.of_nat (List.length input)) (flat_map items_of vs) 0, OAccepted)
  | None => "NOTWF"%string
  end.

(** pretty printer: the model decodes, converts its events to printer events and prints rows *)
Definition show_prow (r : row) : string :=
  match r with
  | RField tn dp nm hx v _ =>
      sconcat "|"%string ["F"%string; tn; dec_string (Z.of_nat dp); nm; show_hex_ hx; v]
  | RBits dp nm bits => sconcat "|"%string ["B"%string; dec_string (Z.of_nat dp); nm; bits]
  | RWarn _ _ => "W"%string
  | RCrashRow => "CRASH"%string
  end.
Definition run_pretty (cur : bool) (abort : bool) (r : root) (input : list Z) : string :=
  let T := if cur then Tables.T else Pinned.T in
  let d := if cur then Tables.rc_default_name else Pinned.rc_default_name in
  let ps := if cur then Tables.all_prims else Pinned.all_prims in
  sconcat (String (Ascii.ascii_of_nat 30) EmptyString)
          (map show_prow (pretty T d (map (fun e => to_pev ps (fst e)) (fst (decode T abort r input))))).

(** command line decision *)
Definition cli_types (T : tables) : list string :=
  app (map fst (types T)) ["Command"; "Response"; "CommandResponseStream"]%string.
Definition cli_ccs (T : tables) : list (string * Z) :=
  match pkind_ (p_cc T) with
  | KEnum ms => flat_map (fun m => match m with EMConst n v => [(n, v)] | _ => [] end) ms
  | _ => []
  end.
Definition run_cli (t c : option string) (f : string) : string :=
  match cli_decide (cli_types Tables.T) (cli_ccs Tables.T) t c f with
  | Refused w => String.append "REFUSED " w
  | Incompatible => "INCOMPATIBLE"%string
  | Decode CliStream _ => "DECODE stream"%string
  | Decode (CliType n) _ => String.append "DECODE type " n
  | Decode (CliResponse cc) _ => String.append "DECODE response " (dec_string cc)
  end.

Extraction "Extract/model.ml"
  tables_current tables_pinned prims_current prims_pinned
  run_decode run_obj run_objev run_evobj run_sevobj run_spec run_spec_lenient run_attr run_rc run_rc_spec run_cli run_pretty run_fe_hex run_fe_swtpm run_fe_auto run_fe_pcap find_type
  prim_text prim_bytes valid representable pname pwidth psigned pkind_
  hex2 dec_string show_hex_
  RType RCommand RResponse RStream.
