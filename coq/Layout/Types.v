(** Layout descriptors: the target language of gen/translate.py.
    Every tpmstream type (primitive, struct, TPM2B, union, command/response area)
    becomes one closed term of type [ty]; the four command maps, the attribute
    masks and the response-code name tables complete [tables]. *)
From Coq Require Import ZArith List String Bool.
Import ListNotations.
Open Scope Z_scope.

(** Members of an enumeration class, in the order [inspect.getmembers]
    (alphabetical) in which [by_value] looks names up. *)
Inductive emember :=
| EMConst (name : string) (v : Z)
| EMRange (name : string) (lo hi : Z) (nib : Z).   (* range lo..hi-1, hex offset padded to nib *)

(** One entry of a [ValidValues(...)] declaration, in source order. *)
Inductive vitem :=
| VRange (lo hi : Z)                                (* python range(lo, hi) *)
| VNamed (cls base : string) (lo hi : Z) (nib : Z)  (* a NamedRange, e.g. TPM_HR.TRANSIENT *)
| VMember (cls name : string) (v : Z)               (* one enum member, e.g. TPM_RH.NULL *)
| VInt (v : Z)                                      (* a bare integer *)
| VEnum (cls : string) (ms : list emember).         (* a whole enumeration class *)

Inductive pkind :=
| KInt                                   (* plain _INT/_UINT subclass: name via the valid set *)
| KEnum (ms : list emember)              (* tpm_enum class or subclass: name via by_value *)
| KBits (masks : list (string * Z))      (* tpm_bitfield: named masks sorted by mask value *)
| KRC.                                   (* TPM_RC *)

Record prim := mkPrim {
  pname : string;
  pwidth : Z;            (* bytes *)
  psigned : bool;
  pvalid : list vitem;
  pkind_ : pkind }.

Inductive selkey := KVal (z : Z) | KFallback | KNever.

Inductive ty :=
| TPrim (p : prim)
| TStruct (name : string) (isparams : bool) (fs : fields)
| TTpm2bList (name szf buf : string) (szp : prim) (elem : ty)
| TTpm2bStruct (name szf buf : string) (szp : prim) (inner : ty)
| TUnion (name : string) (ar : arms)
with fields :=
| FNil
| FPlain (n : string) (t : ty) (r : fields)
| FList (n : string) (elem : ty) (r : fields)          (* count = last non-list value so far *)
| FUnion (n sel : string) (u : ty) (r : fields)
with arms :=
| ANil
| ACons (n : string) (key : selkey) (p : armp) (r : arms)
with armp :=
| PNone
| PTy (t : ty)
| PList (elem : ty) (n : option Z).

Scheme ty_mind := Induction for ty Sort Prop
with fields_mind := Induction for fields Sort Prop
with arms_mind := Induction for arms Sort Prop
with armp_mind := Induction for armp Sort Prop.
Combined Scheme ty_mutind from ty_mind, fields_mind, arms_mind, armp_mind.

Definition ty_name (t : ty) : string :=
  match t with
  | TPrim p => pname p
  | TStruct n _ _ => n
  | TTpm2bList n _ _ _ _ => n
  | TTpm2bStruct n _ _ _ _ => n
  | TUnion n _ => n
  end.

Record tables := mkTables {
  types : list (string * ty);            (* the 248 structure types, by name *)
  cmd_handles : list (Z * ty);
  cmd_params : list (Z * ty);
  rsp_handles : list (Z * ty);
  rsp_params : list (Z * ty);
  p_cmd_tag : prim;                      (* Command.tag type *)
  p_rsp_tag : prim;
  p_size32 : prim;                       (* commandSize/responseSize/authSize/parameterSize *)
  p_cc : prim;
  p_rc : prim;
  t_auth_cmd : ty;                       (* TPMS_AUTH_COMMAND *)
  t_auth_rsp : ty;
  t_enc_param : ty;                      (* TPM2B_ENCRYPTED_PARAM *)
  st_sessions : Z;                       (* TPM_ST.SESSIONS *)
  rc_success : Z;
  sess_attr_field : string;              (* "sessionAttributes" *)
  mask_decrypt : Z;
  mask_encrypt : Z;
  cache_size : option Z;                 (* lru_cache(maxsize=...) of TPMS_PARAMS.encrypted; None = unbounded *)
  rc_fmt0_err : list (Z * string);
  rc_fmt0_warn : list (Z * string);
  rc_fmt1 : list (Z * string) }.

Fixpoint lookupZ {A} (k : Z) (l : list (Z * A)) : option A :=
  match l with
  | [] => None
  | (k', a) :: r => if Z.eqb k k' then Some a else lookupZ k r
  end.

Fixpoint lookupS {A} (k : string) (l : list (string * A)) : option A :=
  match l with
  | [] => None
  | (k', a) :: r => if String.eqb k k' then Some a else lookupS k r
  end.
