(** SPECIFICATION: the interpretation of a byte string that the TPM 2.0 layout tables dictate.
    A plain recursive-descent reading (no coroutines, no constraint objects, no modes):
    big-endian integers of the declared width, counted lists, size-prefixed regions that must
    be filled exactly, union member by selector, areas by command code, session area iff the
    tag says so, opaque first parameter iff asked for, header-only failed responses.
    [sp_*] return the value tree and the unread rest; [events_of] is the event sequence a
    well-formed value must produce.  This file is meant to be read. *)
From Coq Require Import ZArith List String Bool.
From TV Require Import Layout.Types Base.Bytes Model.Monad Model.Ints Model.Decoder.
Import ListNotations.
Open Scope string_scope.
Open Scope list_scope.
Open Scope Z_scope.

Inductive sv :=
| SPrim (pa : path) (p : prim) (z : Z)
| SNode (pa : path) (t : tyid) (kids : list sv).

(** a node seen as a field of its parent: its name (last path component) and, for a primitive, its declared
    type and value *)
Definition sv_path (v : sv) : path := match v with SPrim pa _ _ => pa | SNode pa _ _ => pa end.
Definition last_name (p : path) : string := match rev p with n :: _ => pn_name n | [] => "" end.
Definition kid_info (k : sv) : string * option (string * Z) :=
  (last_name (sv_path k), match k with SPrim _ p z => Some (pname p, z) | SNode _ _ _ => None end).

Fixpoint events_of (v : sv) : list event :=
  match v with
  | SPrim pa p z => [mkEvent pa (TyN (pname p)) (Some z)]
  | SNode pa t kids => mkEvent pa t None :: flat_map events_of kids
  end.

(** the same in wire order as a flat list *)
Inductive item := IPrim (pa : path) (p : prim) (z : Z) | INode (pa : path) (t : tyid).

Fixpoint items_of (v : sv) : list item :=
  match v with
  | SPrim pa p z => [IPrim pa p z]
  | SNode pa t kids => INode pa t :: flat_map items_of kids
  end.

Definition item_event (i : item) : event :=
  match i with
  | IPrim pa p z => mkEvent pa (TyN (pname p)) (Some z)
  | INode pa t => mkEvent pa t None
  end.

Fixpoint all_valid (v : sv) : bool :=
  match v with
  | SPrim _ p z => valid p z
  | SNode _ _ kids => forallb all_valid kids
  end.

(** first out-of-range leaf in wire order *)
Fixpoint first_bad (v : sv) : option (path * prim * Z) :=
  match v with
  | SPrim pa p z => if valid p z then None else Some (pa, p, z)
  | SNode _ _ kids =>
      (fix go (l : list sv) : option (path * prim * Z) :=
         match l with
         | [] => None
         | k :: r => match first_bad k with Some b => Some b | None => go r end
         end) kids
  end.

Definition split_at (n : Z) (bs : list Z) : option (list Z * list Z) :=
  if (n <? 0) || (Z.of_nat (List.length bs) <? n) then None
  else Some (firstn (Z.to_nat n) bs, skipn (Z.to_nat n) bs).

Definition sp_prim (p : prim) (pa : path) (bs : list Z) : option (sv * Z * list Z) :=
  match split_at (pwidth p) bs with
  | Some (h, r) => let z := from_bytes (psigned p) h in Some (SPrim pa p z, z, r)
  | None => None
  end.

(** sanity guard used where readings are composed: what is left over is never longer than what was given
    (always true of the readers below; having it checked keeps the length reasoning local) *)
Definition chk {A} (bs : list Z) (r : option (A * list Z)) : option (A * list Z) :=
  match r with
  | Some (v, rest) => if Nat.leb (List.length rest) (List.length bs) then Some (v, rest) else None
  | None => None
  end.

Section Spec.
  Variable T : tables.

  (** [n] elements, element [i] at path [pindex pa i] *)
  Fixpoint sp_elems (f : path -> list Z -> option (sv * list Z)) (pa : path) (n : nat) (i : Z)
           (bs : list Z) : option (list sv * list Z) :=
    match n with
    | O => Some ([], bs)
    | S n' =>
        match chk bs (f (pindex pa i) bs) with
        | Some (v, r) =>
            match sp_elems f pa n' (i + 1) r with
            | Some (vs, r') => Some (v :: vs, r')
            | None => None
            end
        | None => None
        end
    end.

  Definition sp_counted (f : path -> list Z -> option (sv * list Z)) (lid : tyid) (pa : path) (count : Z)
             (bs : list Z) : option (sv * list Z) :=
    if Z.of_nat (List.length bs) <? count then None     (* every element takes at least one byte *)
    else match sp_elems f pa (Z.to_nat count) 0 bs with
         | Some (vs, r) => Some (SNode pa lid vs, r)
         | None => None
         end.

  (** elements until the region is used up (fuel: one element per remaining byte at most) *)
  Fixpoint sp_until_empty (f : path -> list Z -> option (sv * list Z)) (pa : path) (fuel : nat) (i : Z)
           (bs : list Z) : option (list sv) :=
    match bs with
    | [] => Some []
    | _ =>
        match fuel with
        | O => None
        | S fuel' =>
            match chk bs (f (pindex pa i) bs) with
            | Some (v, r) =>
                match sp_until_empty f pa fuel' (i + 1) r with
                | Some vs => Some (v :: vs)
                | None => None
                end
            | None => None
            end
        end
    end.

  (** size-prefixed list buffer: [size] elements filling the region of [size] bytes exactly *)
  Definition sp_tpm2b_list (name szf buf : string) (szp : prim) (lid : tyid)
             (f : path -> list Z -> option (sv * list Z)) (pa : path) (bs : list Z) : option (sv * list Z) :=
    match sp_prim szp (pchild pa szf) bs with
    | Some (szv, n, r1) =>
        match split_at n r1 with
        | Some (region, rest) =>
            match sp_counted f lid (pchild pa buf) n region with
            | Some (lv, []) => Some (SNode pa (TyN name) [szv; lv], rest)
            | _ => None
            end
        | None => None
        end
    | None => None
    end.

  (** the opaque (encrypted) first parameter *)
  Definition sp_enc_param (pa : path) (bs : list Z) : option (sv * list Z) :=
    match t_enc_param T with
    | TTpm2bList name szf buf szp (TPrim ep) =>
        sp_tpm2b_list name szf buf szp (TyList (pname ep))
          (fun p b => match sp_prim ep p b with Some (v, _, r) => Some (v, r) | None => None end) pa bs
    | _ => None
    end.

  Fixpoint sp_ty (t : ty) (pa : path) (sel : option (string * Z)) (enc : bool) (bs : list Z) {struct t}
    : option (sv * list Z) :=
    match t with
    | TPrim p => match sp_prim p pa bs with Some (v, _, r) => Some (v, r) | None => None end
    | TStruct name isparams fs =>
        let use_enc := enc && isparams && first_is_tpm2b fs in
        if use_enc then
          match fs with
          | FPlain n _ r =>
              match sp_enc_param (pchild pa n) bs with
              | Some (v, r1) =>
                  match sp_fields r pa [(n, None)] r1 with
                  | Some (kids, r2) => Some (SNode pa (TyEnc name) (v :: kids), r2)
                  | None => None
                  end
              | None => None
              end
          | _ => None
          end
        else
          match sp_fields fs pa [] bs with
          | Some (kids, r) => Some (SNode pa (TyN name) kids, r)
          | None => None
          end
    | TTpm2bList name szf buf szp elem =>
        sp_tpm2b_list name szf buf szp (list_id elem) (fun p b => sp_ty elem p None false b) pa bs
    | TTpm2bStruct name szf buf szp inner =>
        match sp_prim szp (pchild pa szf) bs with
        | Some (szv, n, r1) =>
            if n =? 0 then Some (SNode pa (TyN name) [szv; SNode (pchild pa buf) (ty_id inner) []], r1)
            else
            match split_at n r1 with
            | Some (region, rest) =>
                match sp_ty inner (pchild pa buf) None false region with
                | Some (iv, []) => Some (SNode pa (TyN name) [szv; iv], rest)
                | _ => None
                end
            | None => None
            end
        | None => None
        end
    | TUnion name ar =>
        match select_arm ar sel with
        | Some (n, _) =>
            match sp_arms ar pa n bs with
            | Some (kids, r) => Some (SNode pa (TyN name) kids, r)
            | None => None
            end
        | None => None
        end
    end
  with sp_fields (fs : fields) (pa : path) (rvals : list (string * option (string * Z))) (bs : list Z) {struct fs}
    : option (list sv * list Z) :=
    match fs with
    | FNil => Some ([], bs)
    | FPlain n t r =>
        match chk bs (sp_ty t (pchild pa n) None false bs) with
        | Some (v, r1) =>
            let pv := match v with SPrim _ p z => Some (pname p, z) | _ => None end in
            match sp_fields r pa ((n, pv) :: rvals) r1 with
            | Some (vs, r2) => Some (v :: vs, r2)
            | None => None
            end
        | None => None
        end
    | FList n elem r =>
        match rvals with
        | (_, Some (_, count)) :: _ =>          (* the count directly precedes the list *)
            match chk bs (sp_counted (fun p b => sp_ty elem p None false b) (list_id elem) (pchild pa n) count bs) with
            | Some (v, r1) =>
                match sp_fields r pa ((n, None) :: rvals) r1 with
                | Some (vs, r2) => Some (v :: vs, r2)
                | None => None
                end
            | None => None
            end
        | _ => None
        end
    | FUnion n seln u r =>
        match lookupS seln rvals with
        | Some (Some tz) =>
            match chk bs (sp_ty u (pchild pa n) (Some tz) false bs) with
            | Some (v, r1) =>
                let pv := match v with SPrim _ p z => Some (pname p, z) | _ => None end in
                match sp_fields r pa ((n, pv) :: rvals) r1 with
                | Some (vs, r2) => Some (v :: vs, r2)
                | None => None
                end
            | None => None
            end
        | _ => None
        end
    end
  with sp_arms (ar : arms) (pa : path) (target : string) (bs : list Z) {struct ar} : option (list sv * list Z) :=
    match ar with
    | ANil => None
    | ACons n _ p r =>
        if String.eqb n target then
          match p with
          | PNone => Some ([], bs)
          | PTy t => match chk bs (sp_ty t (pchild pa n) None false bs) with
                     | Some (v, r1) => Some ([v], r1)
                     | None => None
                     end
          | PList elem (Some cnt) =>
              match chk bs (sp_counted (fun p b => sp_ty elem p None false b) (list_id elem) (pchild pa n) cnt bs) with
              | Some (v, r1) => Some ([v], r1)
              | None => None
              end
          | PList _ None => None
          end
        else sp_arms r pa target bs
    end.
End Spec.
