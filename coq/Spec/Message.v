(** SPECIFICATION, continued: commands, responses, streams; the expected observable result of
    decoding a well-formed input ([spec_events]: events with the look-ahead the incremental
    decoder is allowed, i.e. at most one byte beyond the fields emitted so far). *)
From Coq Require Import ZArith List String Bool.
From TV Require Import Layout.Types Base.Bytes Model.Monad Model.Ints Model.Decoder Model.Message Model.Pump Spec.Value.
Import ListNotations.
Open Scope string_scope.
Open Scope list_scope.
Open Scope Z_scope.

(** some session of the area has a bit of [mask] set in its field [attr] (sessionAttributes) *)
Definition sess_bit (attr : string) (mask : Z) (sessions : list sv) : bool :=
  existsb (fun s => match s with
                    | SNode _ _ kids =>
                        match lookupS attr (map kid_info kids) with
                        | Some (Some (_, z)) => negb (Z.land z mask =? 0)
                        | _ => false
                        end
                    | SPrim _ _ _ => false
                    end) sessions.

Section SpecMsg.
  Variable T : tables.

  Record cmdinfo := mkCI { ci_cc : Z; ci_rsp_enc : bool }.

  (** a command: tag, commandSize = length of the whole message, commandCode, the handle area of that
      code, [authSize + that many bytes of sessions] iff tag = SESSIONS, the parameter area (first
      parameter opaque iff some session has [decrypt]); the message region is filled exactly *)
  Definition sp_command (pa : path) (bs : list Z) : option (sv * cmdinfo * list Z) :=
    match sp_prim (p_cmd_tag T) (pchild pa "tag") bs with
    | Some (tagv, tag, r1) =>
    match sp_prim (p_size32 T) (pchild pa "commandSize") r1 with
    | Some (szv, total, r2) =>
    (* commandSize counts the whole message: after the two header fields come total - header bytes, then the next message *)
    match split_at (total - (pwidth (p_cmd_tag T) + pwidth (p_size32 T))) r2 with
    | Some (body, rest) =>
    match sp_prim (p_cc T) (pchild pa "commandCode") body with
    | Some (ccv, cc, r3) =>
    match lookupZ cc (cmd_handles T), lookupZ cc (cmd_params T) with
    | Some hty, Some pty =>
    match sp_ty T hty (pchild pa "handles") None false r3 with
    | Some (hv, r4) =>
        let finish (pre : list sv) (sessions : list sv) (r : list Z) :=
          match sp_ty T pty (pchild pa "parameters") None
                      (sess_bit (sess_attr_field T) (mask_decrypt T) sessions) r with
          | Some (pv, []) =>
              Some (SNode pa (TyN "Command") ([tagv; szv; ccv; hv] ++ pre ++ [pv]),
                    mkCI cc (sess_bit (sess_attr_field T) (mask_encrypt T) sessions), rest)
          | _ => None
          end in
        if tag =? st_sessions T then
          match sp_prim (p_size32 T) (pchild pa "authSize") r4 with
          | Some (asv, asz, r5) =>
              match split_at asz r5 with
              | Some (aregion, r6) =>
                  match sp_until_empty (fun p b => sp_ty T (t_auth_cmd T) p None false b)
                                       (pchild pa "authorizationArea") (List.length aregion) 0 aregion with
                  | Some sessions =>
                      finish [asv; SNode (pchild pa "authorizationArea") (list_id (t_auth_cmd T)) sessions]
                             sessions r6
                  | None => None
                  end
              | None => None
              end
          | None => None
          end
        else finish [] [] r4
    | None => None
    end
    | _, _ => None
    end
    | None => None
    end
    | None => None
    end
    | None => None
    end
    | None => None
    end.

  (** a response to command [cc]: tag, responseSize, responseCode; nothing more if the code is not SUCCESS;
      else the handle area, [parameterSize + exactly that many bytes of parameters] and the session area up
      to the end of the message iff tag = SESSIONS (else the parameters up to the end); first parameter
      opaque iff [enc], and [enc] iff some response session has [encrypt] *)
  Definition sp_response (pa : path) (cc : Z) (enc : bool) (bs : list Z) : option (sv * list Z) :=
    match sp_prim (p_rsp_tag T) (pchild pa "tag") bs with
    | Some (tagv, tag, r1) =>
    match sp_prim (p_size32 T) (pchild pa "responseSize") r1 with
    | Some (szv, total, r2) =>
    match split_at (total - (pwidth (p_rsp_tag T) + pwidth (p_size32 T))) r2 with
    | Some (body, rest) =>
    match sp_prim (p_rc T) (pchild pa "responseCode") body with
    | Some (rcv, rc, r3) =>
        if negb (rc =? rc_success T) then
          match r3 with
          | [] => Some (SNode pa (TyN "Response") [tagv; szv; rcv], rest)
          | _ => None
          end
        else
        match lookupZ cc (rsp_handles T), lookupZ cc (rsp_params T) with
        | Some hty, Some pty =>
        match sp_ty T hty (pchild pa "handles") None false r3 with
        | Some (hv, r4) =>
            if tag =? st_sessions T then
              match sp_prim (p_size32 T) (pchild pa "parameterSize") r4 with
              | Some (psv, psz, r5) =>
                  match split_at psz r5 with
                  | Some (pregion, aregion) =>
                      match sp_ty T pty (pchild pa "parameters") None enc pregion with
                      | Some (pv, []) =>
                          match sp_until_empty (fun p b => sp_ty T (t_auth_rsp T) p None false b)
                                               (pchild pa "authorizationArea") (List.length aregion) 0 aregion with
                          | Some sessions =>
                              if Bool.eqb enc (sess_bit (sess_attr_field T) (mask_encrypt T) sessions) then
                                Some (SNode pa (TyN "Response")
                                        [tagv; szv; rcv; hv; psv; pv;
                                         SNode (pchild pa "authorizationArea") (list_id (t_auth_rsp T)) sessions],
                                      rest)
                              else None
                          | None => None
                          end
                      | _ => None
                      end
                  | None => None
                  end
              | None => None
              end
            else
              if enc then None else
              match sp_ty T pty (pchild pa "parameters") None false r4 with
              | Some (pv, []) => Some (SNode pa (TyN "Response") [tagv; szv; rcv; hv; pv], rest)
              | _ => None
              end
        | None => None
        end
        | _, _ => None
        end
    | None => None
    end
    | None => None
    end
    | None => None
    end
    | None => None
    end.

  (** a stream: command, response to it, command, ...; may end after a command *)
  Fixpoint sp_stream (fuel : nat) (pa : path) (bs : list Z) : option (list sv) :=
    match bs with
    | [] => Some []
    | _ =>
        match fuel with
        | O => None
        | S fuel' =>
            match sp_command pa bs with
            | Some (c, ci, r) =>
                match r with
                | [] => Some [c]
                | _ =>
                    match sp_response pa (ci_cc ci) (ci_rsp_enc ci) r with
                    | Some (rv, r') =>
                        match sp_stream fuel' pa r' with
                        | Some vs => Some (c :: rv :: vs)
                        | None => None
                        end
                    | None => None
                    end
                end
            | None => None
            end
        end
    end.

  (** the whole input read as root [r]: the value trees (one per message), nothing left over *)
  Definition sp_root (r : root) (bs : list Z) : option (list sv) :=
    match r with
    | RType t => match sp_ty T t root_path None false bs with Some (v, []) => Some [v] | _ => None end
    | RCommand => match sp_command root_path bs with Some (v, _, []) => Some [v] | _ => None end
    | RResponse (Some cc) enc => match sp_response root_path cc enc bs with Some (v, []) => Some [v] | _ => None end
    | RResponse None _ => None
    | RStream => sp_stream (List.length bs) root_path bs
    end.

  Definition well_formed (r : root) (bs : list Z) : bool :=
    match sp_root r bs with
    | Some vs => forallb all_valid vs
    | None => false
    end.
End SpecMsg.

(** look-ahead bookkeeping: an event emitted when [off] bytes belong to emitted fields has pulled
    min(len, off + 1) bytes *)
Fixpoint stamp_items (len : Z) (l : list item) (off : Z) : list oevent :=
  match l with
  | [] => []
  | IPrim pa p z :: r =>
      (Ev (item_event (IPrim pa p z)), Z.min len (off + pwidth p + 1)) :: stamp_items len r (off + pwidth p)
  | INode pa t :: r =>
      (Ev (item_event (INode pa t)), Z.min len (off + 1)) :: stamp_items len r off
  end.

(** what strict decoding of a well-formed input must produce: these events, then acceptance *)
Definition spec_events (T : tables) (r : root) (bs : list Z) : option (list oevent) :=
  match sp_root T r bs with
  | Some vs => if forallb all_valid vs then Some (stamp_items (Z.of_nat (List.length bs)) (flat_map items_of vs) 0) else None
  | None => None
  end.

(** what warn-mode decoding of a structurally consistent input must produce: the event of every field of the
    field-by-field reading, the event of an out-of-range leaf directly followed by one warning naming it *)
Fixpoint stamp_lenient (len : Z) (l : list item) (off : Z) : list oevent :=
  match l with
  | [] => []
  | IPrim pa p z :: r =>
      (Ev (item_event (IPrim pa p z)), Z.min len (off + pwidth p + 1)) ::
      (if valid p z then [] else [(Wn (EValue pa (pname p) z VSType), Z.min len (off + pwidth p + 1))]) ++
      stamp_lenient len r (off + pwidth p)
  | INode pa t :: r =>
      (Ev (item_event (INode pa t)), Z.min len (off + 1)) :: stamp_lenient len r off
  end.

Definition spec_lenient (T : tables) (r : root) (bs : list Z) : option (list oevent) :=
  match sp_root T r bs with
  | Some vs => Some (stamp_lenient (Z.of_nat (List.length bs)) (flat_map items_of vs) 0)
  | None => None
  end.

(** a structurally consistent input with an out-of-range leaf: the events of the fields before the
    first such leaf, then a value error naming it, with the bytes after that field remaining *)
Fixpoint until_bad (len : Z) (l : list item) (off : Z) : list oevent * option (path * prim * Z * Z) :=
  match l with
  | [] => ([], None)
  | IPrim pa p z :: r =>
      if valid p z then
        let '(evs, b) := until_bad len r (off + pwidth p) in
        ((Ev (item_event (IPrim pa p z)), Z.min len (off + pwidth p + 1)) :: evs, b)
      else ([], Some (pa, p, z, off + pwidth p))
  | INode pa t :: r =>
      let '(evs, b) := until_bad len r off in
      ((Ev (item_event (INode pa t)), Z.min len (off + 1)) :: evs, b)
  end.

Definition spec_value_error (T : tables) (r : root) (bs : list Z) : option (list oevent * outcome) :=
  match sp_root T r bs with
  | Some vs =>
      match until_bad (Z.of_nat (List.length bs)) (flat_map items_of vs) 0 with
      | (evs, Some (pa, p, z, off)) => Some (evs, ORaised (EValue pa (pname p) z VSType) (skipZ bs off))
      | (_, None) => None
      end
  | None => None
  end.
