#!/bin/bash
# tools/try_seed.sh <patch.diff> Cxx [Cyy ...] : apply a seeded change to /repo, run the checks, undo
patch="$1"; shift
cd /repo && git apply "$patch" || { echo "patch does not apply"; exit 2; }
cd /verif
for p in "$@"; do
  echo "== $p"; ./check "$p" 2>&1 | grep -E "^VIOLATION|^KNOWN|^  " | head -${LINES_PER:-4}
done
cd /repo && git checkout -- . && git status --short | head -3
