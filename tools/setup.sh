#!/bin/bash
# Builds the framework from files on disk only: regenerate tables from /repo, full Coq build, extracted model.
set -e
cd "$(dirname "$0")/.."
mkdir -p .work evidence replays
/venv/bin/python - <<'PY'
import sys
sys.path.insert(0, "harness")
import common
ok, msg, _ = common.regenerate_tables()
print("tables:", ok, msg[-300:])
okb, log, failed = common.build()
print("coq build:", okb, failed)
if not okb:
    print(log[-3000:])
dok, dlog = common.build_driver()
print("driver:", dok, dlog[-300:])
sys.exit(0 if (ok and okb and dok) else 1)
PY
