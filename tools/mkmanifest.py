#!/usr/bin/env python3
"""Writes /verif/MANIFEST.json from the table below (kept in one place so it stays valid)."""
import json
import os

VERIF = os.path.dirname(os.path.dirname(os.path.abspath(__file__)))

TB = ("Trusted: Coq 8.16.1 kernel + vm_compute (no native_compute; coqchk -o in the thorough tier); the hand-written model "
      "coq/Model/*.v is tied to /repo by the correspondence check only (differential testing on this run's inputs, not proof); "
      "gen/translate.py (tables translator), extraction (ExtrOcamlBasic + ExtrOcamlString, no Extract Constant of ours), "
      "ocaml/driver.ml, harness/*.py; the specification coq/Spec/*.v and the statements in coq/Properties/*.v.")

# pid -> (category, text, technique, design_ref, extra note)
CLAIMS = {
    "C02": ("proof",
            "Theorem (all tables, both modes, all inputs, every non-stream root): an accepted decode whose only reported problems are value warnings "
            "has a tiled trace whose per-event chunks concatenate to the input, and each chunk is the re-encoding of the event's value (any width, both signs). "
            "The same for the stream root (C02_accepted_stream_is_tiled_by_its_events, Proofs/WTiling.v + StreamTiling.v): the part of the trace before the message root at which the pump ends the stream is tiled, its chunks concatenate to the whole input and the emitted events are its events. Nothing of the property is left without a theorem about the model. "
            "Tie: extracted model vs implementation on generated/corpus inputs; oracle: b''.join(Binary.unmarshal(events)) == input and per-field slices on the implementation.",
            "Coq proof (trace invariant by one structural induction over the decoder model) + model/implementation correspondence + round-trip oracle", "4 C02"),
    "C13": ("proof",
            "Theorem (all tables, modes, roots, inputs): when decoding raises a constraint error, input = bytes the decoder consumed ++ bytes_remaining, and the remainder "
            "is the unread input; every run of every decoder function balances its bytes. Tie: correspondence on fault-enumerated inputs comparing bytes_remaining; "
            "oracle: emitted field bytes + offending bytes + remaining == input on the implementation.",
            "Coq proof (byte-accounting invariant + pump lemma) + model/implementation correspondence + byte-balance oracle", "4 C13"),
}

CLAIMS.update({
    "C16": ("proof",
            "Theorems (all widths, both signednesses, all integers): byte form = big-endian two's complement and its inverse; is_valid reflects membership in the declared set; "
            "a printed enumeration name is a declared member's (constant, or range name + zero-padded hex offset, offsets injective); by computation over the regenerated tables: every valid value of every "
            "enumeration-kind type has such a name. int(), ==, hash, ordering and the ~30 operators are true of the model by definition, so they are decided by differential runs only "
            "(implementation vs plain int). Tie: translator (tables) + Model/Ints.v vs implementation on exhaustive 8-bit (16-bit in thorough) and boundary/random 32/64-bit values; oracle vs the pinned tables.",
            "Coq proof (arithmetic + reflection + computation over regenerated tables) + exhaustive/boundary correspondence", "4 C16"),
    "C17": ("proof",
            "Theorems: for ANY word size and mask list passing attr_ok (positive, pairwise disjoint, union = all ones) every bit position belongs to exactly one field, no field leaves the word, "
            "every value is the union of its fields, the accessor loop terminates and returns the field right-aligned, a printed row shows exactly the field's bits; attr_ok holds for all 12 attribute "
            "types of the regenerated tables (vm_compute). Tie: translator + Model/Attr.v vs implementation (accessors, pretty bit rows) on all 256 values of 8-bit types and walking/mask/random words.",
            "Coq proof (bitwise lemmas, generic in the word size) + vm_compute over regenerated tables + correspondence", "4 C17"),
    "C18": ("proof",
            "Theorem: for all 2^32 codes with bit 7 or bit 8 set, and zero: text form = rendering of the specification's classification (written from the format rules), the bit rows carry the same "
            "classification and partition the 32-bit word. Proof: dependence on the low 12 bits only (lemmas) + sweep of all 4096 residues by vm_compute, names from the regenerated tables vs the pinned ones. "
            "Tie: translator (name tables) + Model/RC.v vs implementation on all 4096 low values x several reserved-bit patterns.",
            "Coq proof (mod-4096 lemmas + exhaustive vm_compute sweep) + exhaustive correspondence", "4 C18"),
    "C20": ("proof",
            "Finite and complete: Tables.T (regenerated from /repo on every run) = Pinned.T by a decidable equality evaluated with vm_compute; coherent Tables.T = true (one layout per command code in each of the four maps, "
            "named after it; <= 3 four-byte handles; lists directly follow an unsigned count; union selectors earlier and every valid value selects a member; reachable list-valued members sized), "
            "each boolean check with a soundness lemma in the property's words. On a mismatch the check searches for a message that now decodes differently from the pinned layout.",
            "translator + Coq computation (vm_compute) over the complete finite tables", "4 C20"),
})

CLAIMS.update({
    "C12": ("proof",
            "The decoder model is a function of (tables, mode, root, input) with no state parameter; the implementation's one piece of process-global state, the memo behind TPMS_PARAMS.encrypted(), is modelled (Model/Cache.v, capacity read from /repo by the translator). "
            "Theorems: with an unbounded memo, in every history (any interleaving of any decodes) two requests for the same class return the same synthesized type; with one entry the history A,B,A breaks it; the regenerated tables have an unbounded memo. "
            "That nothing else carries state across decodes is NOT proved: it is validated by running histories (sequential repeats and step-wise interleaved generators) on the implementation and comparing with Python ==.",
            "Coq proof over all histories of the cache model + translator (cache capacity) + history/interleaving runs on the implementation", "4 C12"),
    "C15": ("proof",
            "Theorems over all byte strings: the hex front-end accepts a text with bytes bs iff the text is a sequence of hex pairs (any case, whitespace anywhere between/inside pairs) spelling bs; the swtpm scanner on any log in the documented layout "
            "(free text without the letter S, SWTPM_IO sections, optional control-channel text) delivers exactly the SWTPM_IO payloads. Auto detection and pcapng payload trimming are modelled and compared, not proved; dpkt's container parsing is outside the model. "
            "Tie: Model/Frontends.v vs implementation on rendered streams, malformed text and all short strings over small alphabets; oracle: front-end events == Binary events on the carried bytes.",
            "Coq proof (state machines vs grammar, unbounded) + correspondence incl. exhaustive short strings + end-to-end event comparison", "4 C15"),
})

PART = " Theorem coverage is PARTIAL (see the *_partial theorems and the header of coq/Properties/%s.v): the remainder of the property is decided by the oracle on the implementation and the model/implementation correspondence, which are differential testing on generated inputs, not proof."
CLAIMS.update({
    "C01": ("proof", "Specification: Spec/Value.v + Spec/Message.v (reference reading of the pinned layout tables, extracted and used as the oracle). PROVED IN FULL for the model (C01_every_root, C01_full_statement_holds): for EVERY root - any structure-type descriptor (primitives, structures, both TPM2B kinds, unions, counted lists, opaque first parameter), COMMANDS (areas picked by the command code, size-governed session area iff the tag says so, opaque first parameter iff a session asks for decryption), RESPONSES with command code and encryption flag (header-only failed responses, parameterSize region, sessions to the end, flag consistent with the sessions) and STREAMS of such messages (below the model's loop bound of 2^64 bytes) - all inputs, all tables passing msg_tables_ok (the regenerated tables pass by computation): if the specification reads the whole input as value(s) with valid leaves, strict decoding emits exactly the specified events (path, declared type, value, wire order, one byte of look-ahead) and accepts - by a simulation between the constraint-tracking coroutine decoder model and the specification (Proofs/Sim1-11.v), also stated with the specification at the pinned and the decoder at the regenerated tables (C20_pinned). The tie to /repo: the model/implementation correspondence and the oracle comparing the implementation with the extracted spec_events on table-directed well-formed encodings of every type, union arm, command code (0-3 sessions, empty session area, encrypted first parameter, failed responses), generated streams and the corpus (differential testing, not proof).",
            "Coq specification + simulation proof (all roots) ; extracted specification as oracle ; model/implementation correspondence", "4 C01"),
    "C03": ("proof", "PROVED (composition, all byte strings): for every structure type passing the table checks (all decodable and area types of the regenerated tables do), for the Command root and for the Response root, strict decoding ACCEPTS an input if and only if the specification reads the whole input as a value / message with valid leaves, and the specification takes every size-governed region to be exactly as long as its size field says - so acceptance implies that every TPM2B size, commandSize, responseSize, authSize and parameterSize equals the byte length of the region it governs, and the emitted events are the specified ones (Proofs/Comp1-5.v: a completed strict run can be restricted to the bytes it consumed, has charged every live region exactly the bytes read and closed the regions it opened exactly filled; the specification's reading is rebuilt from it by induction on the type, then field by field through the message; the session list and the response's parameter area are re-run on exactly their regions). For a response the caller's encryption flag must be consistent (set only if there is a session area: the decoder checks it only against sessions it finds). Proved at operation level for all states: Exceeded is raised for the outermost listed live region the field would cross, names that region (path, limit, counted bytes), the offending field and the excess, after skipping exactly the rest of the region; Anticipated is raised for a live enclosing region when a size is read that cannot fit; a region closes normally only when exactly filled, else Subceeded names it. NOT proved: the accepted => exact direction for the stream root (message by message it is the Command / Response theorems; the flag-consistency premise would have to be carried through every pair), and that nothing is decidable earlier. Oracle: accepted => the extracted specification parses the input with exact sizes; the arithmetic of every size error recomputed from the emitted events; correspondence on every size field perturbed." + PART % "C03",
            "Coq proof (completeness by inversion of completed runs + restriction to consumed bytes, structure types and Command / Response messages; operation-level error anatomy) + region-arithmetic oracle + correspondence on fault-enumerated inputs", "4 C03"),
    "C04": ("proof", "PROVED for EVERY root (structure types, commands, responses, streams of whole messages below the model's loop bound; all inputs; tables passing msg_tables_ok, which the regenerated ones do): a structurally consistent input is rejected by strict decoding if and only if some leaf of the field-by-field reading is out of range (valid <-> membership in the declared set, C16); the error names the FIRST such leaf in wire order (path, declared type, integer), exactly the events of all earlier fields and none for the offending one have been emitted, exactly the bytes after that field remain (Proofs/Sim6-13.v: warn-mode simulation + strict/warn agreement + strict mode never warns); the field-level anatomy for all states. NOT proved: reserved / unknown command codes (they make the input structurally inconsistent for the specification, so the theorems do not speak about them): decided by the oracle (implementation vs extracted spec_value_error at the pinned tables on every constrained leaf of generated messages, command codes included) and the correspondence." + PART % "C04",
            "Coq proof (simulation + strict/warn agreement; all roots) + extracted specification as oracle + correspondence", "4 C04"),
    "C05": ("proof", "PROVED (composition; every root; all tables passing the message checks, which the regenerated ones do; every well-formed message or stream of messages w): w cut anywhere before its end decodes to the events of exactly the fields complete within the cut (structure events that need no further byte included), then InputStreamBytesDepletedError carrying the command code iff its field was among them - for the stream root whenever no message starts at the cut offset, while a stream of whole messages ends cleanly (so a stream ends cleanly only at a message boundary); w followed by any non-empty bytes decodes (non-stream roots) to all events of w, then InputStreamSuperfluousBytesError carrying exactly those bytes and the command code. Key lemma (Proofs/Asks.v, closure over every decoder function, both modes): a decoder that stopped for lack of input continues, given more input, by reading exactly the next byte - so the run on a cut is the maximal part of the whole run that needs no further byte. Mechanism, all inputs well-formed or not: Depleted <=> the decoder is suspended asking for a byte with the whole input handed over; Superfluous carries exactly the non-empty unread rest (input = consumed ++ rest). NOT proved: the event list before depleted/superfluous for inputs that are not prefixes/extensions of a well-formed message (C10's prefix stability applies). Oracle: every/boundary cut points and suffixes of generated messages and streams, command code carried, clean stream ends only at message boundaries." + PART % "C05",
            "Coq proof (composition with C01 via incrementality + 'a suspended decoder reads next' closure; pump characterisation, accounting) + cut/suffix enumeration oracle + correspondence", "4 C05"),
    "C06": ("proof", "Termination is by construction (total Gallina function; loop exhaustion is the distinguished OFuel outcome). PROVED IN FULL for the model in strict mode (C06_every_root_documented, Proofs/Safe1-4.v): for EVERY byte string and EVERY root - any non-union structure type passing safe_ty, commands, responses to a known command code with either encryption flag, streams shorter than the model's loop bound of 2^64 bytes - on tables passing msg_safe (the regenerated tables, all 231 decodable types and all 468 area types pass by computation) decoding ends accepted, with a constraint error, depleted or superfluous: never with an internal error, never at a loop bound; and it never pulls more than the input holds. Proof idea: nothing ever removes the limit of a constraint object; a completed strict run has charged every live listed region exactly the bytes it read and closed the regions it opened exactly filled (so the session loop reaches its size, by-product values have the declared shape, no listed region is live at the end of a response); every message takes at least one byte. NOT proved: warn mode. Tie to /repo: crash oracle (exception classes escaping the implementation on random, mutated and mistyped inputs over all roots) and the correspondence on outcome classes incl. crashes.",
            "Coq proof (all roots, all inputs, strict mode) + crash oracle on arbitrary inputs + correspondence", "4 C06"),
    "C07": ("proof", "Proved for every decoder function, all tables, all states and inputs: a strict run that does not raise is reproduced exactly by warn mode; a strict run raising e after trace tr corresponds to a warn run that continues tr with (only for a value error) the offending event and then the warning wrapping the same e, or raises e itself after the same trace; through the pump: strict accepts => warn emits identical events and no warning; strict raises e => warn warns e after the same events; warn clean => strict accepts. Oracle: both modes on the same bytes (well-formed, fault-enumerated, cuts, random).",
            "Coq proof (relational structural induction strict vs warn, lifted through the pump) + correspondence + two-mode oracle", "4 C07"),
    "C08": ("proof", "PROVED (never aborts; C08_never_aborts_every_root, Proofs/Warn1-4.v): for EVERY byte string and EVERY root - any non-union structure type of the tables, commands, responses with any command code or none, streams below the model's loop bound of 2^64 bytes - on tables passing the checks (msg_safe, msg_b2 and per type safe_ty/bytes2b; the regenerated tables pass by computation) warn-mode decoding runs to the end of the input with every problem delivered as a warning, or raises a value error that is not a type-range error (an unknown command code, a missing command code, a selector that selects no member); it never raises a size error, depleted or superfluous, never fails internally, never reaches a loop bound. Method: a Hoare logic with an exceptional post-condition - a run that ends with Exceeded for a live listed region has charged the enclosing regions exactly the bytes read (skipped ones included) and finished that region and those inside it, so every handler resumes in a state where the invariant of completed runs (every live listed region charged exactly the bytes read) holds again; the own region of a byte buffer cannot be overrun; the session loop and the stream loop consume input in every iteration. PROVED (values only): for EVERY root, on a structurally consistent input warn mode emits exactly the lenient field-by-field events with one warning (the value error naming the leaf) directly after each offending event, and accepts (the simulation in mode false); warn-mode decodes that complete with value warnings only are tiled by their events (C02 with abort=false); an overrun skips exactly the rest of the violated region before it is reported; first-problem agreement (C07). PROVED (tiling with size problems; C08_every_run_is_tiled, Proofs/WTiling.v, every root, every input, either mode): the run's trace is a sequence of blocks - structure event; the w bytes of a primitive followed by its event carrying their big-endian value; a warning without bytes; an overrun = the skipped rest of the violated region, exactly limit - counted bytes, followed by its Exceeded warning; a shortfall = the Subceeded warning followed by exactly limit - counted bytes of padding - with one incomplete last block when the input ends early, and the input is the bytes of the blocks followed by the unread rest: every input byte is shown in a field, skipped as the reported tail of a region or left as surplus, and decoding resumes exactly at the end the violated size field declares. Nothing of the property's text is left without a theorem about the model. Oracle: no escaping exception except the allowed value errors; tiling recomputed from events and warnings (resume at declared end, surplus exact); value-only inputs = lenient specification + one warning directly after each offending event." + PART % "C08",
            "Coq proof (warn mode never aborts; tiling with overrun/shortfall blocks; warn-mode simulation for value faults: all roots, all inputs) + tiling oracle + correspondence in warn mode on single/multiple faults", "4 C08"),
    "C09": ("proof", "PROVED (C09_stream_is_its_messages): for every byte string that is a concatenation of whole messages - command, the response to it, command, ..., the last command possibly without its response - (tables passing msg_tables_ok, either mode, below the model's loop bound of 2^64 bytes) the events and warnings of the stream decode are exactly the events of the first command decoded on its own, then those of the response decoded with THAT command's code and the response encryption THAT command's sessions ask for, then the next command's, ... in order, and the decoder stops silently at the next message root; object side: a decoded stream's events split at the message roots are exactly the per-message event lists, one object per message in order, command / response-built-with-that-command's-code pairing. Not proved: streams containing a malformed message (behaviour up to the first problem is C07/C10); events_to_objs on the implementation. Oracle: stream vs individual decodes on the implementation (Python == on events incl. type identity, and on objects) for generated sequences with failed responses, sessions and encryption mixed." + PART % "C09",
            "Coq proof (stream simulation + per-message theorems) + stream-vs-individual oracle + correspondence", "4 C09"),
    "C10": ("proof", "Proved for every decoder function, both modes, all tables, all states: appending input leaves every run that did not stop for lack of input unchanged and extends the others (the decoder learns about its input only by asking for the next byte); hence for ALL inputs the events of a prefix are a prefix of the events of the whole input; every event is reported with min(len, bytes received + 1) bytes pulled. Independence of the iterable kind is not a theorem: correspondence with seven source kinds. Oracle: look-ahead, prefix stability, complete fields at random and boundary cuts.",
            "Coq proof (incrementality by structural induction, lifted through the pump) + cut oracle + source-kind runs", "4 C10"),
    "C11": ("proof", "PROVED (obj_to_events of common/object.py is modelled in coq/Model/Object.v; every structure type whose classes have distinct attribute names, commands, responses - all tables passing msg_named, which the regenerated ones do by computation; EVERY input strict decoding accepts): the object the decoder returns, turned back into events, is exactly the decoded event list - same length, paths, declared types and values, with structure, list and placeholder events; absent optional parts stay absent (empty payload of a size-prefixed structure = its one placeholder event; union members without payload, the session area / parameterSize of a message without sessions and everything after the response code of a failed response yield nothing); with C02 re-encoding the object yields the input bytes (Proofs/ObjEv.v: induction over the layout descriptors on completed strict runs, then field by field through the command and response decoders, incl. the synthesized encrypted-parameter class). NOT proved, not modelled: events_to_obj (path trie + class lookup) - 'the object rebuilt from the events equals the decoder's object' and value classes are decided on the implementation: by-product == rebuilt (Python ==), both turn back into exactly the decoded events (paths, declared types, values and value classes), re-encoding gives the input, on generated well-formed encodings of every type, command and response incl. empty TPM2B payloads, null union arms, encrypted parameters. Tie to /repo: correspondence on the by-product object and on obj_to_events of it." + PART % "C11",
            "Coq proof (obj_to_events . decode = events, all accepted inputs) + differential conversions on the implementation + model correspondence on the by-product object and its obj_to_events", "4 C11"),
    "C13": CLAIMS["C13"],
    "C14": ("proof", "Proved for every event list (either mode) on which the printer does not fail (byte-buffer elements are primitive events): the hex column concatenated over all rows is the concatenation of the bytes of the primitive events in order; what the row of a primitive shows (type, indentation = path depth, name, bytes, text form). Not yet proved: the row/event bijection and that decoder output has the required shape. Oracle: rows parsed from the real pretty output against the events (one row per structure/primitive/warning event in order, one per byte buffer, hex column), events printer one line per event, neither raises; correspondence compares every row incl. bit rows and value text." + PART % "C14",
            "Coq proof (printer as list function) + row oracle + correspondence", "4 C14"),
    "C19": ("other", "Only the refusal decision of `convert` is a theorem (Model/Cli.v: refused exactly for an unknown type, a response without/with an unknown command). Everything else - argparse, files, stdout, exit status, `type`, `example` - is decided by differential runs of `python -m tpmstream` against in-process library calls on the same files (every input/output format, malformed input, --type/--command).",
            "differential CLI-vs-library runs; Coq lemma for the refusal logic", "4 C19"),
})

PENDING_REASON = "check not built yet in this revision (work in progress; the property is applicable and planned, see DESIGN.md section 4)"


def main():
    props = [json.loads(l) for l in open(os.path.join(VERIF, "properties.jsonl"))]
    checks = []
    na = []
    for p in props:
        pid = p["id"]
        if pid in CLAIMS:
            cat, text, tech, ref = CLAIMS[pid][:4]
            checks.append({
                "property_id": pid,
                "quick_cmd": "./check %s --tier quick" % pid,
                "thorough_cmd": "./check %s --tier thorough" % pid,
                "evidence_file": "/verif/evidence/%s.json" % pid,
                "replay_cmd_template": "./check %s --replay {path}" % pid,
                "engine": "coq-model",
                "level_claimed": {"category": cat, "text": text, "design_ref": "DESIGN.md section " + ref},
                "level_note": TB,
                "technique": tech,
            })
        else:
            na.append({"property_id": pid, "reason": PENDING_REASON})
    m = {
        "version": 1,
        "setup_cmd": "cd /verif && ./tools/setup.sh",
        "hooks": {
            "guard": "TPMSTREAM_VERIF",
            "enable": "no source hooks are needed: checks run /repo's sources unmodified (PYTHONPATH=/repo/src, TPMSTREAM_VERIF=1 set for symmetry)",
            "baseline_off_cmd": "/verif/tools/baseline.sh",
            "source_commits": [],
            "add_only": True,
        },
        "engines": [{
            "name": "coq-model",
            "path": "/verif/coq",
            "serves_properties": sorted(CLAIMS),
            "kind_free_text": "Coq 8.16 development: executable Gallina model of the decoder + specification + theorems; tables regenerated from /repo by gen/translate.py on every run; model extracted to OCaml and compared with the implementation",
        }],
        "checks": checks,
        "not_applicable": na,
        "notes": "See DESIGN.md. fix: commits in /repo are listed in known_findings.json (fixed entries).",
    }
    with open(os.path.join(VERIF, "MANIFEST.json"), "w") as f:
        json.dump(m, f, indent=1)
    print("checks:", len(checks), "not_applicable:", len(na))


if __name__ == "__main__":
    main()
