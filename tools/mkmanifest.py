#!/usr/bin/env python3
"""Writes /verif/MANIFEST.json from the table below (kept in one place so it stays valid)."""
import json
import os

VERIF = os.path.dirname(os.path.dirname(os.path.abspath(__file__)))

TB = ("Trusted: Coq 8.16.1 kernel + vm_compute (no native_compute; coqchk -o in the thorough tier); the hand-written model "
      "coq/Model/*.v is tied to /repo by the correspondence check only (differential testing on this run's inputs, not proof); "
      "gen/translate.py (tables translator), extraction (ExtrOcamlBasic + ExtrOcamlString, no Extract Constant of ours), "
      "ocaml/driver.ml, harness/*.py; the specification coq/Spec/*.v and the statements in coq/Properties/*.v.")

# pid -> (category, text, technique, design_ref, extra note)
CLAIMS = {
    "C02": ("proof",
            "Theorem (all tables, both modes, all inputs, every non-stream root): an accepted decode whose only reported problems are value warnings "
            "has a tiled trace whose per-event chunks concatenate to the input, and each chunk is the re-encoding of the event's value (any width, both signs). "
            "Streams: the run-level tiling theorem holds for every completed run; the pump-level statement for stream roots is not proved (correspondence + oracle only). "
            "Tie: extracted model vs implementation on generated/corpus inputs; oracle: b''.join(Binary.unmarshal(events)) == input and per-field slices on the implementation.",
            "Coq proof (trace invariant by one structural induction over the decoder model) + model/implementation correspondence + round-trip oracle", "4 C02"),
    "C13": ("proof",
            "Theorem (all tables, modes, roots, inputs): when decoding raises a constraint error, input = bytes the decoder consumed ++ bytes_remaining, and the remainder "
            "is the unread input; every run of every decoder function balances its bytes. Tie: correspondence on fault-enumerated inputs comparing bytes_remaining; "
            "oracle: emitted field bytes + offending bytes + remaining == input on the implementation.",
            "Coq proof (byte-accounting invariant + pump lemma) + model/implementation correspondence + byte-balance oracle", "4 C13"),
}

CLAIMS.update({
    "C16": ("proof",
            "Theorems (all widths, both signednesses, all integers): byte form = big-endian two's complement and its inverse; is_valid reflects membership in the declared set; "
            "a printed enumeration name is a declared member's (constant, or range name + zero-padded hex offset, offsets injective); by computation over the regenerated tables: every valid value of every "
            "enumeration-kind type has such a name. int(), ==, hash, ordering and the ~30 operators are true of the model by definition, so they are decided by differential runs only "
            "(implementation vs plain int). Tie: translator (tables) + Model/Ints.v vs implementation on exhaustive 8-bit (16-bit in thorough) and boundary/random 32/64-bit values; oracle vs the pinned tables.",
            "Coq proof (arithmetic + reflection + computation over regenerated tables) + exhaustive/boundary correspondence", "4 C16"),
    "C17": ("proof",
            "Theorems: for ANY word size and mask list passing attr_ok (positive, pairwise disjoint, union = all ones) every bit position belongs to exactly one field, no field leaves the word, "
            "every value is the union of its fields, the accessor loop terminates and returns the field right-aligned, a printed row shows exactly the field's bits; attr_ok holds for all 12 attribute "
            "types of the regenerated tables (vm_compute). Tie: translator + Model/Attr.v vs implementation (accessors, pretty bit rows) on all 256 values of 8-bit types and walking/mask/random words.",
            "Coq proof (bitwise lemmas, generic in the word size) + vm_compute over regenerated tables + correspondence", "4 C17"),
    "C18": ("proof",
            "Theorem: for all 2^32 codes with bit 7 or bit 8 set, and zero: text form = rendering of the specification's classification (written from the format rules), the bit rows carry the same "
            "classification and partition the 32-bit word. Proof: dependence on the low 12 bits only (lemmas) + sweep of all 4096 residues by vm_compute, names from the regenerated tables vs the pinned ones. "
            "Tie: translator (name tables) + Model/RC.v vs implementation on all 4096 low values x several reserved-bit patterns.",
            "Coq proof (mod-4096 lemmas + exhaustive vm_compute sweep) + exhaustive correspondence", "4 C18"),
    "C20": ("proof",
            "Finite and complete: Tables.T (regenerated from /repo on every run) = Pinned.T by a decidable equality evaluated with vm_compute; coherent Tables.T = true (one layout per command code in each of the four maps, "
            "named after it; <= 3 four-byte handles; lists directly follow an unsigned count; union selectors earlier and every valid value selects a member; reachable list-valued members sized), "
            "each boolean check with a soundness lemma in the property's words. On a mismatch the check searches for a message that now decodes differently from the pinned layout.",
            "translator + Coq computation (vm_compute) over the complete finite tables", "4 C20"),
})

CLAIMS.update({
    "C12": ("proof",
            "The decoder model is a function of (tables, mode, root, input) with no state parameter; the implementation's one piece of process-global state, the memo behind TPMS_PARAMS.encrypted(), is modelled (Model/Cache.v, capacity read from /repo by the translator). "
            "Theorems: with an unbounded memo, in every history (any interleaving of any decodes) two requests for the same class return the same synthesized type; with one entry the history A,B,A breaks it; the regenerated tables have an unbounded memo. "
            "That nothing else carries state across decodes is NOT proved: it is validated by running histories (sequential repeats and step-wise interleaved generators) on the implementation and comparing with Python ==.",
            "Coq proof over all histories of the cache model + translator (cache capacity) + history/interleaving runs on the implementation", "4 C12"),
    "C15": ("proof",
            "Theorems over all byte strings: the hex front-end accepts a text with bytes bs iff the text is a sequence of hex pairs (any case, whitespace anywhere between/inside pairs) spelling bs; the swtpm scanner on any log in the documented layout "
            "(free text without the letter S, SWTPM_IO sections, optional control-channel text) delivers exactly the SWTPM_IO payloads. Auto detection and pcapng payload trimming are modelled and compared, not proved; dpkt's container parsing is outside the model. "
            "Tie: Model/Frontends.v vs implementation on rendered streams, malformed text and all short strings over small alphabets; oracle: front-end events == Binary events on the carried bytes.",
            "Coq proof (state machines vs grammar, unbounded) + correspondence incl. exhaustive short strings + end-to-end event comparison", "4 C15"),
})

PENDING_REASON = "check not built yet in this revision (work in progress; the property is applicable and planned, see DESIGN.md section 4)"


def main():
    props = [json.loads(l) for l in open(os.path.join(VERIF, "properties.jsonl"))]
    checks = []
    na = []
    for p in props:
        pid = p["id"]
        if pid in CLAIMS:
            cat, text, tech, ref = CLAIMS[pid][:4]
            checks.append({
                "property_id": pid,
                "quick_cmd": "./check %s --tier quick" % pid,
                "thorough_cmd": "./check %s --tier thorough" % pid,
                "evidence_file": "/verif/evidence/%s.json" % pid,
                "replay_cmd_template": "./check %s --replay {path}" % pid,
                "engine": "coq-model",
                "level_claimed": {"category": cat, "text": text, "design_ref": "DESIGN.md section " + ref},
                "level_note": TB,
                "technique": tech,
            })
        else:
            na.append({"property_id": pid, "reason": PENDING_REASON})
    m = {
        "version": 1,
        "setup_cmd": "cd /verif && ./tools/setup.sh",
        "hooks": {
            "guard": "TPMSTREAM_VERIF",
            "enable": "no source hooks are needed: checks run /repo's sources unmodified (PYTHONPATH=/repo/src, TPMSTREAM_VERIF=1 set for symmetry)",
            "baseline_off_cmd": "/verif/tools/baseline.sh",
            "source_commits": [],
            "add_only": True,
        },
        "engines": [{
            "name": "coq-model",
            "path": "/verif/coq",
            "serves_properties": sorted(CLAIMS),
            "kind_free_text": "Coq 8.16 development: executable Gallina model of the decoder + specification + theorems; tables regenerated from /repo by gen/translate.py on every run; model extracted to OCaml and compared with the implementation",
        }],
        "checks": checks,
        "not_applicable": na,
        "notes": "See DESIGN.md. fix: commits in /repo are listed in known_findings.json (fixed entries).",
    }
    with open(os.path.join(VERIF, "MANIFEST.json"), "w") as f:
        json.dump(m, f, indent=1)
    print("checks:", len(checks), "not_applicable:", len(na))


if __name__ == "__main__":
    main()
