#!/usr/bin/env python3
"""Writes /verif/MANIFEST.json from the table below (kept in one place so it stays valid)."""
import json
import os

VERIF = os.path.dirname(os.path.dirname(os.path.abspath(__file__)))

TB = ("Trusted: Coq 8.16.1 kernel + vm_compute (no native_compute; coqchk -o in the thorough tier); the hand-written model "
      "coq/Model/*.v is tied to /repo by the correspondence check only (differential testing on this run's inputs, not proof); "
      "gen/translate.py (tables translator), extraction (ExtrOcamlBasic + ExtrOcamlString, no Extract Constant of ours), "
      "ocaml/driver.ml, harness/*.py; the specification coq/Spec/*.v and the statements in coq/Properties/*.v.")

# pid -> (category, text, technique, design_ref, extra note)
CLAIMS = {
    "C02": ("proof",
            "Theorem (all tables, both modes, all inputs, every non-stream root): an accepted decode whose only reported problems are value warnings "
            "has a tiled trace whose per-event chunks concatenate to the input, and each chunk is the re-encoding of the event's value (any width, both signs). "
            "Streams: the run-level tiling theorem holds for every completed run; the pump-level statement for stream roots is not proved (correspondence + oracle only). "
            "Tie: extracted model vs implementation on generated/corpus inputs; oracle: b''.join(Binary.unmarshal(events)) == input and per-field slices on the implementation.",
            "Coq proof (trace invariant by one structural induction over the decoder model) + model/implementation correspondence + round-trip oracle", "4 C02"),
    "C13": ("proof",
            "Theorem (all tables, modes, roots, inputs): when decoding raises a constraint error, input = bytes the decoder consumed ++ bytes_remaining, and the remainder "
            "is the unread input; every run of every decoder function balances its bytes. Tie: correspondence on fault-enumerated inputs comparing bytes_remaining; "
            "oracle: emitted field bytes + offending bytes + remaining == input on the implementation.",
            "Coq proof (byte-accounting invariant + pump lemma) + model/implementation correspondence + byte-balance oracle", "4 C13"),
}

PENDING_REASON = "check not built yet in this revision (work in progress; the property is applicable and planned, see DESIGN.md section 4)"


def main():
    props = [json.loads(l) for l in open(os.path.join(VERIF, "properties.jsonl"))]
    checks = []
    na = []
    for p in props:
        pid = p["id"]
        if pid in CLAIMS:
            cat, text, tech, ref = CLAIMS[pid][:4]
            checks.append({
                "property_id": pid,
                "quick_cmd": "./check %s --tier quick" % pid,
                "thorough_cmd": "./check %s --tier thorough" % pid,
                "evidence_file": "/verif/evidence/%s.json" % pid,
                "replay_cmd_template": "./check %s --replay {path}" % pid,
                "engine": "coq-model",
                "level_claimed": {"category": cat, "text": text, "design_ref": "DESIGN.md section " + ref},
                "level_note": TB,
                "technique": tech,
            })
        else:
            na.append({"property_id": pid, "reason": PENDING_REASON})
    m = {
        "version": 1,
        "setup_cmd": "cd /verif && ./tools/setup.sh",
        "hooks": {
            "guard": "TPMSTREAM_VERIF",
            "enable": "no source hooks are needed: checks run /repo's sources unmodified (PYTHONPATH=/repo/src, TPMSTREAM_VERIF=1 set for symmetry)",
            "baseline_off_cmd": "/verif/tools/baseline.sh",
            "source_commits": [],
            "add_only": True,
        },
        "engines": [{
            "name": "coq-model",
            "path": "/verif/coq",
            "serves_properties": sorted(CLAIMS),
            "kind_free_text": "Coq 8.16 development: executable Gallina model of the decoder + specification + theorems; tables regenerated from /repo by gen/translate.py on every run; model extracted to OCaml and compared with the implementation",
        }],
        "checks": checks,
        "not_applicable": na,
        "notes": "See DESIGN.md. fix: commits in /repo are listed in known_findings.json (fixed entries).",
    }
    with open(os.path.join(VERIF, "MANIFEST.json"), "w") as f:
        json.dump(m, f, indent=1)
    print("checks:", len(checks), "not_applicable:", len(na))


if __name__ == "__main__":
    main()
