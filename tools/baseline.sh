#!/bin/bash
# Runs the repository's pinned suite (guard off) and compares the passing set with /root/.vp/BASELINE.json
set -u
unset TPMSTREAM_VERIF
out=$(mktemp /var/tmp/junit.XXXXXX.xml)
cd /repo && /venv/bin/python -m pytest -ra -q -p no:cacheprovider --timeout=900 --continue-on-collection-errors --junitxml="$out" >/dev/null 2>&1
python3 - "$out" <<'PY'
import json, sys, xml.etree.ElementTree as ET
base = set(json.load(open('/root/.vp/BASELINE.json'))['stable_pass'])
passed = set()
for tc in ET.parse(sys.argv[1]).getroot().iter('testcase'):
    if not any(c.tag in ('failure', 'error', 'skipped') for c in tc):
        passed.add(f"{tc.get('classname')}::{tc.get('name')}")
missing = sorted(base - passed)
print(f"baseline={len(base)} passed_now={len(passed)} missing={len(missing)}")
for m in missing[:20]:
    print("  MISSING", m)
sys.exit(1 if missing else 0)
PY
rc=$?
rm -f "$out"
exit $rc
