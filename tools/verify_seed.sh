#!/bin/bash
# tools/verify_seed.sh <name> <outdir with patch.diff demo.py meta.json> <Cxx checks...>
# confirms in a scratch worktree: patch applies, suite passes with it, demo passes without / fails with it;
# then runs the given checks against /repo with the patch applied (and undoes it); stores everything in seeded/<name>/
name="$1"; out="$2"; shift 2
wt=/tmp/vs_$name
git -C /repo worktree add -q --detach $wt HEAD || exit 2
res=/verif/seeded/$name; mkdir -p $res
cp "$out/patch.diff" "$out/demo.py" $res/ 2>/dev/null
cp "$out/meta.json" $res/agent_meta.json 2>/dev/null
( cd $wt && git apply $res/patch.diff ) || { echo "PATCH FAILS"; git -C /repo worktree remove --force $wt; exit 2; }
PYTHONPATH=/repo/src /venv/bin/python $res/demo.py >/dev/null 2>&1; d0=$?
PYTHONPATH=$wt/src /venv/bin/python $res/demo.py >/dev/null 2>&1; d1=$?
tests=$(cd $wt && PYTHONPATH=$wt/src /venv/bin/python -m pytest -q -p no:cacheprovider --timeout=900 --continue-on-collection-errors 2>&1 | tail -1)
git -C /repo worktree remove --force $wt
echo "demo_clean=$d0 demo_patched=$d1 tests: $tests"
cd /repo && git apply $res/patch.diff
caught=""
cd /verif
for p in "$@"; do
  o=$(./check "$p" 2>&1 | grep -E "^VIOLATION" | head -3)
  if [ -n "$o" ]; then caught="$caught $p"; echo "$o" | cut -c1-160 > $res/detected_by_$p.txt; ./check "$p" 2>&1 | grep -E "^VIOLATION|^  " | head -6 | cut -c1-300 >> $res/detected_by_$p.txt; fi
done
cd /repo && git checkout -- . 
echo "caught_by:$caught"
python3 - "$name" "$d0" "$d1" "$tests" "$caught" "$@" <<'PY'
import json, sys, os
name, d0, d1, tests, caught = sys.argv[1:6]; ran = sys.argv[6:]
res = "/verif/seeded/%s" % name
am = {}
try: am = json.load(open(res + "/agent_meta.json"))
except Exception: pass
meta = {"name": name, "property": am.get("property", name[:3]), "summary": am.get("summary"), "needs_to_manifest": am.get("needs_to_manifest"),
        "files_changed": am.get("files_changed"),
        "confirmed": {"demo_exit_on_clean_tree": int(d0), "demo_exit_with_patch": int(d1), "test_suite_with_patch": tests,
                      "commit": os.popen("git -C /repo rev-parse --short HEAD").read().strip()},
        "checks_run": ran, "caught_by": caught.split(),
        "how": "tools/verify_seed.sh: scratch worktree of /repo HEAD, git apply patch.diff, demo.py with PYTHONPATH=clean/patched, pinned pytest command with PYTHONPATH=<worktree>/src; then ./check <ids> against /repo with the patch applied, git checkout -- . afterwards"}
json.dump(meta, open(res + "/meta.json", "w"), indent=1)
PY
