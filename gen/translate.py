#!/usr/bin/env python3
"""Translator: tpmstream's layout tables (live class objects under /repo/src) -> JSON -> Coq.

Fail-closed: anything that does not fit the descriptor language raises Untranslatable.
Usage:
  translate.py extract  OUT.json          (imports tpmstream from PYTHONPATH)
  translate.py emit     IN.json OUT.v MODNAME
"""
import json
import sys


class Untranslatable(Exception):
    pass


# --------------------------------------------------------------------------- extract


def extract():
    import inspect
    from dataclasses import fields
    from typing import Any

    from tpmstream.common.util import is_list
    from tpmstream.spec import all_types
    from tpmstream.spec.commands import Command, CommandResponseStream, Response
    from tpmstream.spec.commands.params_common import TPM2B_ENCRYPTED_PARAM, TPMS_PARAMS
    from tpmstream.spec.common import tpm_rc
    from tpmstream.spec.common.values import NamedRange, ValidValues
    from tpmstream.spec.structures.attribute_structures import TPMA_SESSION
    from tpmstream.spec.structures.constants import TPM_CC, TPM_RC, TPM_ST
    from tpmstream.spec.structures.structures import (
        TPMS_AUTH_COMMAND,
        TPMS_AUTH_RESPONSE,
    )

    prims = {}
    types = {}
    order = []  # emission order (dependencies first); entries ("p"|"t", name)
    seen_obj = {}

    keys_of = {}  # id(obj) -> key
    dup_names = []

    def claim(name, obj):
        """unique key for a class object: its name, or name__N for a second class of the same name"""
        if id(obj) in keys_of:
            return keys_of[id(obj)]
        key = name
        n = 1
        while key in seen_obj:
            n += 1
            key = f"{name}__{n}"
        if n > 1:
            dup_names.append(name)
        seen_obj[key] = obj
        keys_of[id(obj)] = key
        return key

    def member(m):
        if isinstance(m, NamedRange):
            return {
                "k": "range",
                "name": m._basename,
                "lo": int(m._start),
                "hi": int(m._end),
                "nib": int(m._index_nibbles),
                "cls": m._type.__name__,
                "sep": m._sep,
            }
        if hasattr(m, "_name") and hasattr(m, "_value"):
            return {"k": "const", "name": m._name, "v": int(m)}
        raise Untranslatable(f"enum member {m!r}")

    def enum_members(cls):
        ms = [member(m) for m in cls]
        for m in ms:
            if m["k"] == "range" and m["sep"] != ".":
                raise Untranslatable("NamedRange separator")
        return ms

    def vitem(v):
        if isinstance(v, range):
            if v.step != 1:
                raise Untranslatable("range step")
            return {"k": "vrange", "lo": v.start, "hi": v.stop}
        if isinstance(v, NamedRange):
            m = member(v)
            return {"k": "vnamed", "cls": m["cls"], "base": m["name"], "lo": m["lo"], "hi": m["hi"], "nib": m["nib"]}
        if inspect.isclass(v):
            if not hasattr(v, "class_iter"):
                raise Untranslatable(f"valid-values class {v}")
            return {"k": "venum", "cls": v.__name__, "ms": enum_members(v)}
        if isinstance(v, bool):
            raise Untranslatable("bool in valid values")
        if isinstance(v, int):
            return {"k": "vint", "v": v}
        if hasattr(v, "_name") and hasattr(v, "_value") and v._name is not None:
            return {"k": "vmember", "cls": type(v).__name__, "name": v._name, "v": int(v)}
        raise Untranslatable(f"valid-values entry {v!r}")

    def do_prim(t):
        name = t.__name__
        if claim(name, t) != name:
            raise Untranslatable(f"two distinct primitive classes named {name}")
        if name in prims:
            return name
        vv = t._valid_values
        if not isinstance(vv, ValidValues):
            raise Untranslatable(f"{name}._valid_values")
        if t is TPM_RC or issubclass(t, TPM_RC):
            kind = {"k": "rc"}
        elif hasattr(t, "attributes"):
            attrs = t(0).attributes()
            kind = {"k": "bits", "masks": [[a._name, int(a._value)] for a in attrs]}
        elif hasattr(t, "by_value"):
            kind = {"k": "enum", "ms": enum_members(t)}
        else:
            kind = {"k": "int"}
        prims[name] = {
            "name": name,
            "width": int(t._int_size),
            "signed": bool(t._signed),
            "valid": [vitem(v) for v in vv._values],
            "kind": kind,
        }
        order.append(("p", name))
        return name

    def selkeys(t):
        sel = {}
        for k, v in t._selected_by.items():
            sel[v] = k  # reversed dict, later key wins
        out = {}
        for key, fname in sel.items():
            if key is None:
                out.setdefault(fname, []).append({"k": "fallback"})
            elif inspect.isclass(key):
                pass  # never equal to a decoded selector value
            else:
                out.setdefault(fname, []).append({"k": "val", "z": int(key)})
        return out

    def do_type(t):
        """returns a reference {"p": name} or {"t": name}"""
        if t is Any or t is None:
            raise Untranslatable("Any/None where a type is required")
        if is_list(t):
            raise Untranslatable("bare list where a type is required")
        if t in (Command, Response, CommandResponseStream):
            raise Untranslatable("nested Command/Response")
        if hasattr(t, "_int_size"):
            return {"p": do_prim(t)}
        name = t.__name__
        key = claim(name, t)
        if key in types:
            if types[key] is None:
                raise Untranslatable(f"recursive type {name}")
            return {"t": key}
        types[key] = None
        fs = fields(t)
        if name.startswith("TPM2B"):
            if len(fs) != 2:
                raise Untranslatable(f"{name}: TPM2B needs two fields")
            szf, buf = fs
            szr = do_type(szf.type)
            if "p" not in szr:
                raise Untranslatable(f"{name}: size field not primitive")
            if is_list(buf.type):
                d = {"k": "tpm2b_list", "name": name, "szf": szf.name, "buf": buf.name, "szp": szr["p"],
                     "elem": do_type(buf.type.__args__[0])}
            else:
                d = {"k": "tpm2b_struct", "name": name, "szf": szf.name, "buf": buf.name, "szp": szr["p"],
                     "inner": do_type(buf.type)}
        elif hasattr(t, "_selected_by"):
            keys = selkeys(t)
            arms = []
            for f in fs:
                if f.type is None:
                    p = {"k": "none"}
                elif is_list(f.type):
                    n = None
                    if hasattr(t, "_list_size") and f.name in t._list_size:
                        n = int(t._list_size[f.name])
                    p = {"k": "list", "elem": do_type(f.type.__args__[0]), "n": n}
                else:
                    p = {"k": "ty", "t": do_type(f.type)}
                ks = keys.get(f.name, [])
                if not ks:
                    arms.append({"n": f.name, "key": {"k": "never"}, "p": p})
                for k in ks:
                    arms.append({"n": f.name, "key": k, "p": p})
            d = {"k": "union", "name": name, "arms": arms}
        else:
            fl = []
            for f in fs:
                if is_list(f.type):
                    fl.append({"k": "list", "n": f.name, "elem": do_type(f.type.__args__[0])})
                elif hasattr(t, "_selectors") and f.name in t._selectors:
                    fl.append({"k": "union", "n": f.name, "sel": t._selectors[f.name], "u": do_type(f.type)})
                else:
                    fl.append({"k": "plain", "n": f.name, "t": do_type(f.type)})
            d = {"k": "struct", "name": name, "params": bool(issubclass(t, TPMS_PARAMS)), "fields": fl}
        types[key] = d
        order.append(("t", key))
        return {"t": key}

    structure_names = []
    for t in all_types:
        if t in (Command, Response, CommandResponseStream):
            continue
        do_type(t)
        structure_names.append(t.__name__)

    def cmap(m):
        out = []
        for k, v in m.items():
            r = do_type(v)
            if "t" not in r:
                raise Untranslatable("area type is primitive")
            out.append([int(k), r["t"]])
        return out

    if [f.name for f in fields(Command)] != ["tag", "commandSize", "commandCode", "handles", "authSize", "authorizationArea", "parameters"]:
        raise Untranslatable("Command fields")
    if [f.name for f in fields(Response)] != ["tag", "responseSize", "responseCode", "handles", "parameterSize", "parameters", "authorizationArea"]:
        raise Untranslatable("Response fields")
    cf = {f.name: f.type for f in fields(Command)}
    rf = {f.name: f.type for f in fields(Response)}
    if cf["handles"] is not Any or cf["parameters"] is not Any or rf["handles"] is not Any or rf["parameters"] is not Any:
        raise Untranslatable("handles/parameters must be Any")
    if Command._selectors != {"handles": "commandCode", "parameters": "commandCode"}:
        raise Untranslatable("Command._selectors")
    size_types = {cf["commandSize"], cf["authSize"], rf["responseSize"], rf["parameterSize"]}
    if len(size_types) != 1:
        raise Untranslatable("size field types differ")
    if cf["authorizationArea"].__args__[0] is not TPMS_AUTH_COMMAND or rf["authorizationArea"].__args__[0] is not TPMS_AUTH_RESPONSE:
        raise Untranslatable("authorizationArea element type")
    for A in (TPMS_AUTH_COMMAND, TPMS_AUTH_RESPONSE):
        if "sessionAttributes" not in [f.name for f in fields(A)]:
            raise Untranslatable("sessionAttributes")

    enc = TPMS_PARAMS.__dict__["encrypted"]
    fn = getattr(enc, "__func__", enc)
    if hasattr(fn, "cache_parameters"):
        cache_size = fn.cache_parameters()["maxsize"]  # None = unbounded
        cache = {"k": "lru", "size": cache_size}
    else:
        cache = {"k": "none"}

    def rcmap(m):
        return [[int(k), v[0]] for k, v in sorted(m.items())]

    out = {
        "prims": prims,
        "types": types,
        "order": order,
        "structures": structure_names,
        "cmd_handles": cmap(Command._type_maps["handles"]),
        "cmd_params": cmap(Command._type_maps["parameters"]),
        "rsp_handles": cmap(Response._type_maps["handles"]),
        "rsp_params": cmap(Response._type_maps["parameters"]),
        "p_cmd_tag": do_prim(cf["tag"]),
        "p_rsp_tag": do_prim(rf["tag"]),
        "p_size32": do_prim(cf["commandSize"]),
        "p_cc": do_prim(cf["commandCode"]),
        "p_rc": do_prim(rf["responseCode"]),
        "t_auth_cmd": do_type(TPMS_AUTH_COMMAND)["t"],
        "t_auth_rsp": do_type(TPMS_AUTH_RESPONSE)["t"],
        "t_enc_param": do_type(TPM2B_ENCRYPTED_PARAM)["t"],
        "st_sessions": int(TPM_ST.SESSIONS),
        "rc_success": int(TPM_RC.SUCCESS._value),
        "mask_decrypt": int(TPMA_SESSION.decrypt._value),
        "mask_encrypt": int(TPMA_SESSION.encrypt._value),
        "cache": cache,
        "rc_fmt0_err": rcmap(tpm_rc.TPM_RC_FMT0_ERROR_MAP),
        "rc_fmt0_warn": rcmap(tpm_rc.TPM_RC_FMT0_WARN_MAP),
        "rc_fmt1": rcmap(tpm_rc.TPM_RC_FMT1_MAP),
        "rc_default": tpm_rc.TPM_RC_FMT1_MAP[-12345][0],
        "dup_names": dup_names,
        "cc_keys_cover": all(cc in Command._type_maps["handles"] for cc in TPM_CC),
    }
    return out


# --------------------------------------------------------------------------- emit


def qs(s):
    if not isinstance(s, str) or any(ord(c) > 126 or ord(c) < 32 for c in s):
        raise Untranslatable(f"string {s!r}")
    return '"' + s.replace('"', '""') + '"'


def qz(z):
    if not isinstance(z, int) or isinstance(z, bool):
        raise Untranslatable(f"int {z!r}")
    return f"({z})" if z < 0 else str(z)


def emit_members(ms):
    out = []
    for m in ms:
        if m["k"] == "const":
            out.append(f"EMConst {qs(m['name'])} {qz(m['v'])}")
        else:
            out.append(f"EMRange {qs(m['name'])} {qz(m['lo'])} {qz(m['hi'])} {qz(m['nib'])}")
    return "[" + "; ".join(out) + "]"


def emit_vitem(v):
    k = v["k"]
    if k == "vrange":
        return f"VRange {qz(v['lo'])} {qz(v['hi'])}"
    if k == "vnamed":
        return f"VNamed {qs(v['cls'])} {qs(v['base'])} {qz(v['lo'])} {qz(v['hi'])} {qz(v['nib'])}"
    if k == "vmember":
        return f"VMember {qs(v['cls'])} {qs(v['name'])} {qz(v['v'])}"
    if k == "vint":
        return f"VInt {qz(v['v'])}"
    if k == "venum":
        return f"VEnum {qs(v['cls'])} {emit_members(v['ms'])}"
    raise Untranslatable(k)


def ref(r):
    if "p" in r:
        return f"(TPrim p_{r['p']})"
    return f"t_{r['t']}"


def emit(data, modname):
    L = []
    w = L.append
    w(f"(* GENERATED by gen/translate.py ({modname}) - do not edit *)")
    w("From Coq Require Import ZArith List String.")
    w("From TV Require Import Layout.Types.")
    w("Import ListNotations.")
    w("Open Scope Z_scope.")
    w("Open Scope string_scope.")
    w("")
    for kind, name in data["order"]:
        if kind == "p":
            p = data["prims"][name]
            kd = p["kind"]
            if kd["k"] == "int":
                ks = "KInt"
            elif kd["k"] == "enum":
                ks = f"(KEnum {emit_members(kd['ms'])})"
            elif kd["k"] == "bits":
                ks = "(KBits [" + "; ".join(f"({qs(n)}, {qz(m)})" for n, m in kd["masks"]) + "])"
            elif kd["k"] == "rc":
                ks = "KRC"
            else:
                raise Untranslatable(kd["k"])
            valid = "[" + "; ".join(emit_vitem(v) for v in p["valid"]) + "]"
            w(f"Definition p_{name} : prim := mkPrim {qs(name)} {qz(p['width'])} {'true' if p['signed'] else 'false'} {valid} {ks}.")
        else:
            d = data["types"][name]
            if d["k"] == "struct":
                fs = "FNil"
                for f in reversed(d["fields"]):
                    if f["k"] == "plain":
                        fs = f"(FPlain {qs(f['n'])} {ref(f['t'])} {fs})"
                    elif f["k"] == "list":
                        fs = f"(FList {qs(f['n'])} {ref(f['elem'])} {fs})"
                    else:
                        fs = f"(FUnion {qs(f['n'])} {qs(f['sel'])} {ref(f['u'])} {fs})"
                w(f"Definition t_{name} : ty := TStruct {qs(name)} {'true' if d['params'] else 'false'} {fs}.")
            elif d["k"] == "tpm2b_list":
                w(f"Definition t_{name} : ty := TTpm2bList {qs(name)} {qs(d['szf'])} {qs(d['buf'])} p_{d['szp']} {ref(d['elem'])}.")
            elif d["k"] == "tpm2b_struct":
                w(f"Definition t_{name} : ty := TTpm2bStruct {qs(name)} {qs(d['szf'])} {qs(d['buf'])} p_{d['szp']} {ref(d['inner'])}.")
            elif d["k"] == "union":
                ar = "ANil"
                for a in reversed(d["arms"]):
                    key = a["key"]
                    ks = {"val": lambda: f"(KVal {qz(key['z'])})", "fallback": lambda: "KFallback", "never": lambda: "KNever"}[key["k"]]()
                    p = a["p"]
                    if p["k"] == "none":
                        ps = "PNone"
                    elif p["k"] == "ty":
                        ps = f"(PTy {ref(p['t'])})"
                    else:
                        ps = f"(PList {ref(p['elem'])} {'None' if p['n'] is None else '(Some ' + qz(p['n']) + ')'})"
                    ar = f"(ACons {qs(a['n'])} {ks} {ps} {ar})"
                w(f"Definition t_{name} : ty := TUnion {qs(name)} {ar}.")
            else:
                raise Untranslatable(d["k"])
    w("")

    def zmap(m):
        return "[" + ";\n  ".join(f"({qz(k)}, t_{t})" for k, t in m) + "]"

    def smap(m):
        return "[" + "; ".join(f"({qz(k)}, {qs(s)})" for k, s in m) + "]"

    w("Definition structure_types : list (string * ty) := [")
    w(";\n".join(f"  ({qs(n)}, {'TPrim p_' + n if n in data['prims'] else 't_' + n})" for n in data["structures"]))
    w("].")
    for k in ("cmd_handles", "cmd_params", "rsp_handles", "rsp_params"):
        w(f"Definition {k}_tbl : list (Z * ty) := {zmap(data[k])}.")
    cache = data["cache"]
    if cache["k"] == "lru":
        cs = "None" if cache["size"] is None else f"(Some {qz(cache['size'])})"
    else:
        cs = "(Some 0)"
    w("Definition T : tables := {|")
    w("  types := structure_types;")
    w("  cmd_handles := cmd_handles_tbl; cmd_params := cmd_params_tbl;")
    w("  rsp_handles := rsp_handles_tbl; rsp_params := rsp_params_tbl;")
    w(f"  p_cmd_tag := p_{data['p_cmd_tag']}; p_rsp_tag := p_{data['p_rsp_tag']}; p_size32 := p_{data['p_size32']};")
    w(f"  p_cc := p_{data['p_cc']}; p_rc := p_{data['p_rc']};")
    w(f"  t_auth_cmd := t_{data['t_auth_cmd']}; t_auth_rsp := t_{data['t_auth_rsp']}; t_enc_param := t_{data['t_enc_param']};")
    w(f"  st_sessions := {qz(data['st_sessions'])}; rc_success := {qz(data['rc_success'])};")
    w('  sess_attr_field := "sessionAttributes";')
    w(f"  mask_decrypt := {qz(data['mask_decrypt'])}; mask_encrypt := {qz(data['mask_encrypt'])};")
    w(f"  cache_size := {cs};")
    w(f"  rc_fmt0_err := {smap(data['rc_fmt0_err'])};")
    w(f"  rc_fmt0_warn := {smap(data['rc_fmt0_warn'])};")
    w(f"  rc_fmt1 := {smap(data['rc_fmt1'])} |}}.")
    w(f"Definition rc_default_name : string := {qs(data['rc_default'])}.")
    w("Definition all_prims : list prim := [" + "; ".join(f"p_{n}" for k, n in data["order"] if k == "p") + "].")
    return "\n".join(L) + "\n"


# --------------------------------------------------------------------------- source audit (shared state)

ALLOWED_MEMOS = {
    ("spec/commands/params_common.py", "encrypted", "lru_cache"),   # its capacity is cache_size of the tables
    ("common/canonical.py", "events", "cached_property"),           # per instance
    ("common/canonical.py", "object", "cached_property"),           # per instance
}
MEMO_NAMES = {"lru_cache", "cache", "cached_property"}
STATE_MODULES = {"contextvars", "threading", "multiprocessing", "shelve", "atexit"}   # context / thread / process-wide state


def audit_sources(srcdir):
    """Syntactic audit of every module under src/tpmstream for the usual carriers of state that survives a call:
    default arguments evaluated once (anything but constants and plain names), global/nonlocal statements,
    memo decorators / uses of functools' memo helpers other than the known ones, and imports of modules that provide
    context-, thread- or process-wide state (contextvars, threading, ...). Returns a sorted list of findings
    (empty on a tree without such carriers). Pure ast: nothing is imported or run."""
    import ast
    import os

    out = []
    for root, dirs, files in os.walk(srcdir):
        dirs.sort()
        for f in sorted(files):
            if not f.endswith(".py"):
                continue
            path = os.path.join(root, f)
            rel = os.path.relpath(path, srcdir).replace(os.sep, "/")
            try:
                tree = ast.parse(open(path, encoding="utf-8").read())
            except SyntaxError as e:
                out.append("unparsable:%s:%s" % (rel, e.msg))
                continue

            def plain(d):
                if isinstance(d, ast.Constant):
                    return True
                if isinstance(d, (ast.Name, ast.Attribute)):
                    return True
                if isinstance(d, ast.UnaryOp) and isinstance(d.operand, ast.Constant):
                    return True
                if isinstance(d, ast.Tuple):
                    return all(plain(x) for x in d.elts)
                return False

            allowed_nodes = set()
            for n in ast.walk(tree):
                if isinstance(n, (ast.FunctionDef, ast.AsyncFunctionDef, ast.Lambda)):
                    a = n.args
                    name = getattr(n, "name", "lambda")
                    for d in list(a.defaults) + [x for x in a.kw_defaults if x is not None]:
                        if not plain(d):
                            out.append("default:%s:%s:%s" % (rel, name, ast.unparse(d)))
                    for dec in getattr(n, "decorator_list", []):
                        core = dec.func if isinstance(dec, ast.Call) else dec
                        dn = core.id if isinstance(core, ast.Name) else core.attr if isinstance(core, ast.Attribute) else None
                        if dn in MEMO_NAMES:
                            if (rel, name, dn) in ALLOWED_MEMOS:
                                allowed_nodes.add(id(core))
                            else:
                                out.append("memo:%s:%s:%s" % (rel, name, ast.unparse(dec)))
                                allowed_nodes.add(id(core))
                if isinstance(n, (ast.Import, ast.ImportFrom)):
                    mods = [a.name for a in n.names] if isinstance(n, ast.Import) else [n.module or ""]
                    for mname in mods:
                        if mname.split(".")[0] in STATE_MODULES:
                            out.append("state-module:%s:%s" % (rel, mname))
                if isinstance(n, (ast.Global, ast.Nonlocal)):
                    out.append("%s:%s:%s" % ("global" if isinstance(n, ast.Global) else "nonlocal", rel, ",".join(n.names)))
            # any other use of functools' memo helpers (called as functions, assigned, ...)
            for n in ast.walk(tree):
                nm = n.id if isinstance(n, ast.Name) else n.attr if isinstance(n, ast.Attribute) else None
                if nm in MEMO_NAMES and id(n) not in allowed_nodes:
                    out.append("memo-helper:%s:%s:line %d" % (rel, nm, n.lineno))
    return sorted(out)


def emit_audit(findings):
    L = ["(* generated by gen/translate.py audit_sources from /repo/src/tpmstream - do not edit *)",
         "From Coq Require Import List String.", "Import ListNotations.", "Open Scope string_scope.",
         "(** carriers of state that survives a call, found in the sources: default arguments evaluated once,",
         "    global/nonlocal statements, memo decorators and helpers other than the known ones *)",
         "Definition shared_state : list string := [" + "; ".join(qs("".join(c if 32 <= ord(c) <= 126 else "?" for c in x)) for x in findings) + "]."]
    return "\n".join(L) + "\n"


def main():
    if sys.argv[1] == "extract":
        data = extract()
        with open(sys.argv[2], "w") as f:
            json.dump(data, f, indent=1, sort_keys=True)
    elif sys.argv[1] == "emit":
        with open(sys.argv[2]) as f:
            data = json.load(f)
        text = emit(data, sys.argv[4])
        with open(sys.argv[3], "w") as f:
            f.write(text)
    else:
        sys.exit("usage")


if __name__ == "__main__":
    main()
