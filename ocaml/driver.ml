(* Driver for the extracted model: one request per input line, one result line per request. *)
open Model

let rec pos_of_int (n : int) : positive =
  if n = 1 then XH else if n land 1 = 0 then XO (pos_of_int (n lsr 1)) else XI (pos_of_int (n lsr 1))
let z_of_int (n : int) : z = if n = 0 then Z0 else if n > 0 then Zpos (pos_of_int n) else Zneg (pos_of_int (-n))
let rec z_of_string_pos (s : string) : z =
  (* decimal, arbitrary size: Horner with the extracted arithmetic *)
  let acc = ref Z0 in
  String.iter (fun c -> acc := Z.add (Z.mul !acc (z_of_int 10)) (z_of_int (Char.code c - 48))) s; !acc
let z_of_string (s : string) : z =
  if String.length s > 0 && s.[0] = '-' then Z.opp (z_of_string_pos (String.sub s 1 (String.length s - 1)))
  else z_of_string_pos s
let cl_of_string (s : string) : char list = List.init (String.length s) (String.get s)
let string_of_cl (l : char list) : string = let b = Buffer.create 64 in List.iter (Buffer.add_char b) l; Buffer.contents b
let bytes_of_hex (h : string) : z list =
  if h = "-" then [] else
  List.init (String.length h / 2) (fun i -> z_of_int (int_of_string ("0x" ^ String.sub h (2 * i) 2)))

let tables_of = function "cur" -> tables_current | "pin" -> tables_pinned | _ -> failwith "tables"
let prims_of = function "cur" -> prims_current | "pin" -> prims_pinned | _ -> failwith "tables"

(* root spec: T:<which>:<name> | C | R:<cc|->:<0|1> | S *)
let root_of tbl (s : string) =
  match String.split_on_char ':' s with
  | ["T"; which; name] ->
      (match find_type tbl (cl_of_string which) (cl_of_string name) with
       | Some t -> Some (RType t) | None -> None)
  | ["C"] -> Some RCommand
  | ["R"; cc; enc] -> Some (RResponse ((if cc = "-" then None else Some (z_of_string cc)), enc = "1"))
  | ["S"] -> Some RStream
  | _ -> None

let find_prim ps name = List.find_opt (fun p -> string_of_cl (pname p) = name) ps

let handle (line : string) : string =
  match String.split_on_char ' ' line with
  | ["dec"; tb; abort; root; hex] ->
      let tbl = tables_of tb in
      (match root_of tbl root with
       | None -> "NOROOT"
       | Some r -> string_of_cl (run_decode tbl (abort = "1") r (bytes_of_hex hex)))
  | ["spec"; tb; root; hex] ->
      let tbl = tables_of tb in
      (match root_of tbl root with
       | None -> "NOROOT"
       | Some r -> string_of_cl (run_spec tbl r (bytes_of_hex hex)))
  | ["lenient"; tb; root; hex] ->
      let tbl = tables_of tb in
      (match root_of tbl root with
       | None -> "NOROOT"
       | Some r -> string_of_cl (run_spec_lenient tbl r (bytes_of_hex hex)))
  | ["obj"; tb; root; hex] ->
      let tbl = tables_of tb in
      (match root_of tbl root with
       | None -> "NOROOT"
       | Some r -> string_of_cl (run_obj tbl r (bytes_of_hex hex)))
  | ["objev"; tb; root; hex] ->
      let tbl = tables_of tb in
      (match root_of tbl root with
       | None -> "NOROOT"
       | Some r -> string_of_cl (run_objev tbl r (bytes_of_hex hex)))
  | ["evobj"; tb; root; hex] ->
      let tbl = tables_of tb in
      (match root_of tbl root with
       | None -> "NOROOT"
       | Some r -> string_of_cl (run_evobj tbl r (bytes_of_hex hex)))
  | ["sevobj"; tb; hex] ->
      string_of_cl (run_sevobj (tables_of tb) (bytes_of_hex hex))
  | ["attr"; tb; name; v] ->
      (match find_prim (prims_of tb) name with
       | None -> "NOPRIM"
       | Some p -> string_of_cl (run_attr p (z_of_string v)))
  | ["fe"; "hex"; t] -> string_of_cl (run_fe_hex (bytes_of_hex t))
  | ["fe"; "swtpm"; t] -> string_of_cl (run_fe_swtpm (bytes_of_hex t))
  | ["fe"; "auto"; t] -> string_of_cl (run_fe_auto (bytes_of_hex t))
  | ["fe"; "pcap"; t] -> string_of_cl (run_fe_pcap (List.map bytes_of_hex (if t = "-" then [] else String.split_on_char ',' t)))
  | ["pretty"; tb; abort; root; hex] ->
      let tbl = tables_of tb in
      (match root_of tbl root with
       | None -> "NOROOT"
       | Some r -> string_of_cl (run_pretty (tb = "cur") (abort = "1") r (bytes_of_hex hex)))
  | ["cli"; t; c; f] ->
      let o x = if x = "-" then None else Some (cl_of_string x) in
      string_of_cl (run_cli (o t) (o c) (cl_of_string f))
  | ["rc"; tb; v] -> string_of_cl (run_rc (tb = "cur") (z_of_string v))
  | ["rcspec"; v] -> string_of_cl (run_rc_spec (z_of_string v))
  | ["int"; tb; name; v] ->
      (match find_prim (prims_of tb) name with
       | None -> "NOPRIM"
       | Some p ->
           let z = z_of_string v in
           let by = match prim_bytes p z with Some l -> String.concat "" (List.map (fun b -> string_of_cl (hex2 b)) l) | None -> "OVERFLOW" in
           Printf.sprintf "%s|%s|%s|%s" (if valid p z then "1" else "0") (if representable p z then "1" else "0") by (string_of_cl (prim_text p z)))
  | _ -> "BADREQ"

let () =
  try
    while true do
      let line = input_line stdin in
      print_string (try handle line with e -> "EXC " ^ Printexc.to_string e);
      print_char '\n'
    done
  with End_of_file -> ()
