"""Case streams G1..G5 for the engine properties (see DESIGN.md 5.1). Every case is a pair
(root_spec, hex) plus a label; all randomness comes from the Run's rng."""
import json
import os

import corpus
import gen
from common import VERIF


def pinned():
    with open(os.path.join(VERIF, "gen", "pinned.json")) as f:
        return json.load(f)


class Cases:
    def __init__(self, rng, tier):
        self.rng = rng
        self.tier = tier
        self.T = pinned()
        self.G = gen.Gen(self.T, rng)
        self.corpus = corpus.load()
        self.nonunion = [n for n in self.T["structures"]
                         if not (n in self.T["types"] and self.T["types"][n]["k"] == "union")]
        self.scale = 1 if tier == "quick" else 6

    def h(self, b):
        return bytes(b).hex() or "-"

    # G0: inputs of earlier alarms (genuine or false), always run first
    def regress(self, pid, kind="dec"):
        import json as _json
        path = os.path.join(os.path.dirname(os.path.abspath(__file__)), "regress.json")
        out = []
        for e in _json.load(open(path)):
            if e["id"] != pid or e["kind"] != kind:
                continue
            if kind == "dec":
                out.append(("regress", e["root"], bytes.fromhex(e["input_hex"]), {"faults": []}))
            else:
                parts = [bytes.fromhex(x) for x in e["parts_hex"]]
                out.append(("regress-stream", "S", b"".join(parts), {"msgs": [], "parts": parts}))
        return out

    # G1: well-formed
    def wellformed(self, per_type=1, per_cc=1, corpus_n=120):
        """yields (label, root, bytes, info)"""
        out = []
        for n in self.nonunion:
            for _ in range(per_type * self.scale):
                b, faults = self.G.structure(n)
                out.append(("wf-struct", "T:S:%s" % n, b, {"faults": faults}))
        for cc in self.G.ccs:
            for _ in range(per_cc * self.scale):
                c, ci, r, ri = self.G.pair(cc)
                out.append(("wf-command", "C", c, ci))
                out.append(("wf-response", "R:%d:%d" % (cc, 1 if ci["rsp_enc"] else 0), r, ri))
        # parameter encryption requested for EVERY command code (also where the first parameter is not a TPM2B, so that
        # the request is ignored): a command with a decrypt session, the response decoded with the encryption flag
        if per_cc:
            for cc in self.G.ccs:
                c, ci = self.G.command(cc, nsessions=1, decrypt=True)
                out.append(("wf-command-decrypt", "C", c, ci))
                r, ri = self.G.response(cc, enc=True, rc=0)
                out.append(("wf-response-encrypted", "R:%d:1" % cc, r, ri))
        # failed responses under every kind of tag (header-only whatever the tag says)
        if per_cc:
            for cc in self.rng.sample(self.G.ccs, 4 * self.scale):
                for tg in (0x8001, 0x8002, 0x00C4):
                    r, ri = self.G.response(cc, enc=False, rc=self.rng.choice([0x101, 0x1C4, 0x922, 0x01E, 0x98E, 0x000C0902, 0x80000101]), tag=tg)
                    out.append(("wf-response-failed", "R:%d:0" % cc, r, ri))
                    # a failed response is header-only: it decodes without knowing its command
                    out.append(("wf-response-failed-nocc", "R:-:0", r, ri))
        # tag TPM_ST_SESSIONS with a present but empty authorization area
        for cc in self.rng.sample(self.G.ccs, 6 * self.scale):
            c, ci = self.G.command(cc, nsessions=0, empty_area=True)
            out.append(("wf-command-empty-area", "C", c, ci))
            r, ri = self.G.response(cc, enc=False, nsessions=0, rc=0, empty_area=True)
            out.append(("wf-response-empty-area", "R:%d:0" % cc, r, ri))
        # area types decoded on their own
        for which, key in (("CH", "cmd_handles"), ("CP", "cmd_params"), ("RH", "rsp_handles"), ("RP", "rsp_params")):
            tbl = self.T[key]
            pick = tbl if self.tier != "quick" else self.rng.sample(tbl, 25)
            for cc, tkey in pick:
                b, faults = self.G.structure(tkey)
                out.append(("wf-area", "T:%s:%s" % (which, self.T["types"][tkey]["name"]), b, {"faults": faults}))
        cp = self.corpus if self.tier != "quick" else self.rng.sample(self.corpus, min(corpus_n, len(self.corpus)))
        for name, c, r in cp:
            cb, rb = bytes.fromhex(c), bytes.fromhex(r)
            cc = int.from_bytes(cb[6:10], "big")
            out.append(("corpus-command", "C", cb, {"cc": cc}))
            out.append(("corpus-stream", "S", cb + rb, {"cc": cc}))
        return out

    # G5: streams of pairs
    def streams(self, n=40, maxpairs=4):
        out = []
        for _ in range(n * self.scale):
            k = self.rng.randrange(1, maxpairs + 1)
            msgs = []
            for _ in range(k):
                if self.rng.random() < 0.3:
                    name, c, r = self.rng.choice(self.corpus)
                    cb, rb = bytes.fromhex(c), bytes.fromhex(r)
                    msgs.append((cb, {"cc": int.from_bytes(cb[6:10], "big"), "rsp_enc": None}, rb))
                else:
                    c, ci, r, ri = self.G.pair()
                    msgs.append((c, ci, r))
            if self.rng.random() < 0.25:
                # the response-encryption request sits on a password authorization (alone, or next to an HMAC/policy
                # session that does not ask for it)
                cc0 = self.rng.choice(self.G.ccs)
                pw = (0x40000009, self.rng.choice([0x40, 0x41, 0x60]))
                other = (None, self.rng.choice([0, 1, 0x20]))
                c, ci = self.G.command(cc0, sess=self.rng.choice([[pw], [other, pw], [pw, other]]))
                r, ri = self.G.response(ci["cc"], enc=ci["rsp_enc"])
                msgs.append((c, ci, r))
            drop_last_rsp = self.rng.random() < 0.2
            parts = []
            for i, (c, ci, r) in enumerate(msgs):
                parts.append(c)
                if not (drop_last_rsp and i == len(msgs) - 1):
                    parts.append(r)
            out.append(("stream", "S", b"".join(parts), {"msgs": msgs, "parts": parts}))
        return out

    # G1'': streams whose command is abandoned before its command code was decoded (commandSize below the header
    # length) - the response that follows has no command code to be interpreted with - and responses decoded with a
    # command code that is not a TPM_CC
    def orphan_responses(self, n=24):
        out = []
        for _ in range(n * self.scale):
            c, ci, r, ri = self.G.pair()
            size = self.rng.choice([0, 1, 2, 5, 6, 7, 9])
            cut = self.rng.choice([6, 6, 8, 10, len(c)])
            cmd = c[:2] + size.to_bytes(4, "big") + c[6:cut]
            out.append(("orphan-response", "S", cmd + r, {"msgs": [], "parts": [cmd, r]}))
        for _ in range(max(4, n // 3) * self.scale):
            c, ci, r, ri = self.G.pair()
            bad = self.rng.choice([0, 1, 0x11E, 0x200, 0x20000000, 0xFFFFFFFF, ci["cc"] + 0x1000])
            out.append(("unknown-cc-response", "R:%d:0" % bad, r, {}))
        return out

    # G2: size faults on a well-formed message
    def size_faults(self, base, per=3):
        label, root, b, info = base
        out = []
        sizes = [f for f in info.get("faults", []) if f[0] in ("size", "count")]
        self.rng.shuffle(sizes)
        for (kind, off, w, pn, z) in sizes[:per]:
            for nv in self.rng.sample([z - 1, z + 1, z - 2, z + 2, z - w, z + w, 0, (1 << (8 * w)) - 1, z + 255], 3):
                if nv < 0 or nv == z or nv >= (1 << (8 * w)):
                    continue
                out.append(("fault-" + kind, root, gen.set_field(b, off, w, nv), {"off": off, "w": w, "old": z, "new": nv}))
        return out

    # G2'': a size-prefixed region that is longer than its contents: k bytes inserted at its end, its size field and
    # every enclosing size field raised by k (all size fields stay consistent with each other and with the length)
    def padded(self, base, per=2):
        label, root, b, info = base
        out = []
        is_msg = root == "C" or root.startswith("R:")
        sizes = [f for f in info.get("faults", []) if f[0] == "size"]

        def region(f):
            kind, off, w, pn, z = f
            if is_msg and off == 2 and w == 4 and z == len(b):
                return 0, z
            return off + w, off + w + z
        cand = list(sizes)
        self.rng.shuffle(cand)
        for f in cand[:per]:
            s0, e0 = region(f)
            if e0 > len(b):
                continue
            k = self.rng.choice([1, 2, 3])
            pad = bytes(self.rng.randrange(256) for _ in range(k))
            nb = bytearray(b[:e0] + pad + b[e0:])
            for g in sizes:
                s1, e1 = region(g)
                if g is f or (s1 <= f[1] and e1 >= e0 and g[1] < f[1]):
                    kind, off, w, pn, z = g
                    if z + k >= (1 << (8 * w)):
                        nb = None
                        break
                    nb[off:off + w] = (z + k).to_bytes(w, "big")
            if nb is not None:
                out.append(("padded-region", root, bytes(nb), {"off": f[1], "w": f[2], "old": f[4], "new": f[4] + k, "pad": pad.hex()}))
        return out

    # G2': value faults
    def value_faults(self, base, per=3):
        label, root, b, info = base
        out = []
        leaves = [f for f in info.get("faults", []) if f[0] == "leaf"]
        self.rng.shuffle(leaves)
        n = 0
        for (kind, off, w, pn, z) in leaves:
            p = self.T["prims"][pn]
            cands = []
            vs = self.G.valid_values(pn)
            lim = 1 << (8 * w)
            for v in vs[:12]:
                for d in (-1, 1):
                    x = v + d
                    if p["signed"]:
                        ok = -(lim // 2) <= x < lim // 2
                    else:
                        ok = 0 <= x < lim
                    if ok and not self.G.is_valid(pn, x):
                        cands.append(x)
            if not cands:
                continue
            x = self.rng.choice(cands)
            out.append(("fault-value", root, gen.set_field(b, off, w, x), {"off": off, "w": w, "old": z, "new": x, "prim": pn}))
            n += 1
            if n >= per:
                break
        return out

    # G3: cuts and suffixes
    def cuts(self, base, n=4, exhaustive=False):
        label, root, b, info = base
        ks = list(range(len(b))) if exhaustive else sorted(set([0, 1, len(b) - 1] + [self.rng.randrange(len(b)) for _ in range(n)])) if len(b) else []
        return [("cut", root, b[:k], {"k": k, "full": b}) for k in ks if 0 <= k < len(b)]

    def suffixes(self, base):
        label, root, b, info = base
        sfx = self.rng.choice([b"\x00", b"\xff\x01", bytes(self.rng.randrange(256) for _ in range(self.rng.randrange(1, 12))),
                               bytes(self.rng.randrange(256) for _ in range(self.rng.choice([63, 64, 65, 100, 257, 300]))),
                               # surplus that looks like transport framing: the mssim acknowledgement, its neighbours,
                               # the beginning of another message
                               b"\x00\x00\x00\x00", b"\x00\x00\x00\x00", b"\x00\x00\x00", b"\x00\x00\x00\x00\x00", b"\x00\x00\x00\x01",
                               b"\x80\x01", b"\x80\x01\x00\x00\x00\x0a\x00\x00\x00\x00"])
        return [("suffix", root, b + sfx, {"suffix": sfx, "full": b})]

    # responses whose sessions contradict the response-encryption expectation (an error in strict mode, a warning in
    # warn mode), alone and in streams
    def enc_mismatches(self, n=12):
        out = []
        for _ in range(n * self.scale):
            cc = self.rng.choice(self.G.ccs)
            # sessions ask for encryption although none is expected
            r, ri = self.G.response(cc, enc=False, rc=0, sess_attrs=self.rng.choice([[0x40], [0x41], [0x01, 0x40], [0x60, 0x00]]))
            out.append(("enc-mismatch-unexpected", "R:%d:0" % cc, r, ri))
            c, ci = self.G.command(cc, nsessions=self.rng.choice([0, 1]), encrypt=False)
            out.append(("enc-mismatch-stream", "S", c + r, {"msgs": [], "parts": [c, r]}))
            # encryption expected, no session confirms it
            r2, ri2 = self.G.response(cc, enc=True, rc=0, sess_attrs=self.rng.choice([[0x00], [0x01], [0x01, 0x20]]))
            out.append(("enc-mismatch-missing", "R:%d:1" % cc, r2, ri2))
        return out

    # G4: arbitrary
    def arbitrary(self, n=300):
        out = []
        roots = []
        for _ in range(n * self.scale):
            r = self.rng.random()
            name, c, rr = self.rng.choice(self.corpus)
            cb, rb = bytes.fromhex(c), bytes.fromhex(rr)
            cc = int.from_bytes(cb[6:10], "big")
            if r < 0.2:
                b = bytes(self.rng.randrange(256) for _ in range(self.rng.randrange(0, 64)))
            elif r < 0.7:
                b = self.mutate(self.rng.choice([cb, rb]))
            else:
                src = self.rng.choice([cb, rb])
                off = self.rng.randrange(len(src) + 1)
                b = src[off:off + self.rng.randrange(0, 80)]
            q = self.rng.random()
            if q < 0.3:
                root = "C"
            elif q < 0.55:
                root = "R:%d:%d" % (self.rng.choice([cc, self.rng.choice(self.G.ccs)]), 1 if self.rng.random() < 0.2 else 0)
            elif q < 0.7:
                root = "S"
            elif q < 0.9:
                root = "T:S:%s" % self.rng.choice(self.nonunion)
            else:
                which, key = self.rng.choice([("CH", "cmd_handles"), ("CP", "cmd_params"), ("RH", "rsp_handles"), ("RP", "rsp_params")])
                root = "T:%s:%s" % (which, self.T["types"][self.rng.choice(self.T[key])[1]]["name"])
            out.append(("arbitrary", root, b, {}))
        return out

    def mutate(self, b):
        b = bytearray(b)
        for _ in range(self.rng.choice([1, 1, 1, 2, 3])):
            if not b:
                break
            op = self.rng.random()
            i = self.rng.randrange(len(b))
            if op < 0.6:
                b[i] = self.rng.choice([0, 1, 2, 0xFF, 0x80, self.rng.randrange(256), (b[i] + 1) % 256, (b[i] - 1) % 256])
            elif op < 0.8:
                del b[i]
            else:
                b.insert(i, self.rng.randrange(256))
        return bytes(b)
