"""Implementation side of the correspondence: reads request lines (same syntax as ocaml/driver.ml),
runs tpmstream from PYTHONPATH (/repo/src), prints canonical result lines."""
import sys
import traceback

from tpmstream.common.error import (
    AnticipatedSizeConstraintExceededError,
    ConstraintViolatedError,
    InputStreamBytesDepletedError,
    InputStreamSuperfluousBytesError,
    SizeConstraintExceededError,
    SizeConstraintSubceededError,
    ValueConstraintViolatedError,
)
from tpmstream.common.event import MarshalEvent, WarningEvent
from tpmstream.common.util import is_list
from tpmstream.io.binary import Binary
from tpmstream.spec import all_types
from tpmstream.spec.commands import Command, CommandResponseStream, Response
from tpmstream.spec.structures.constants import TPM_CC

TYPES = {}
for t in all_types:
    TYPES.setdefault(("S", t.__name__), t)
for which, m in (("CH", Command._type_maps["handles"]), ("CP", Command._type_maps["parameters"]),
                 ("RH", Response._type_maps["handles"]), ("RP", Response._type_maps["parameters"])):
    for t in m.values():
        TYPES.setdefault((which, t.__name__), t)
PRIMS = {}


def _collect_prims():
    from dataclasses import fields, is_dataclass

    seen = set()

    def walk(t):
        if t is None or id(t) in seen:
            return
        seen.add(id(t))
        if is_list(t):
            walk(t.__args__[0])
            return
        if hasattr(t, "_int_size"):
            PRIMS.setdefault(t.__name__, t)
            return
        if is_dataclass(t):
            for f in fields(t):
                if f.type is not None and not isinstance(f.type, str) and f.type.__class__.__name__ != "_SpecialForm":
                    try:
                        walk(f.type)
                    except Exception:
                        pass

    for t in TYPES.values():
        if t in (Command, Response, CommandResponseStream):
            continue
        walk(t)
    from tpmstream.spec.commands.params_common import TPM2B_ENCRYPTED_PARAM
    from tpmstream.spec.structures.structures import TPMS_AUTH_COMMAND, TPMS_AUTH_RESPONSE

    for t in (TPM2B_ENCRYPTED_PARAM, TPMS_AUTH_COMMAND, TPMS_AUTH_RESPONSE):
        walk(t)
    for f in fields(Command) + fields(Response):
        if hasattr(f.type, "_int_size"):
            PRIMS.setdefault(f.type.__name__, f.type)


_collect_prims()


def tname(t):
    if t is None:
        return "None"
    if is_list(t):
        return "list:" + t.__args__[0].__name__
    if getattr(t, "_encrypted", False):
        return "enc:" + t.__name__
    return t.__name__


def spath(p):
    return "/" + str(p)


def opath(p):
    return "-" if p is None else spath(p)


def oz(v):
    return "-" if v is None else str(int(v))


def hx(b):
    if b is None:
        return "-"
    b = bytes(b)
    return b.hex() if b else "-"


def info(c):
    return "%s %s %d" % (opath(c.constraint_path), oz(c.size_max), int(c.size_already))


def show_err(e):
    if isinstance(e, ValueConstraintViolatedError):
        c = e.constraint
        vv = c.valid_values
        if vv is getattr(c.tpm_type, "_valid_values", None):
            src = "type"
        elif len(vv._values) == 1 and vv._values[0] is TPM_CC:
            src = "cc"
        else:
            src = "sel"
        if e.value is None:
            # the command code itself is absent (a response whose command was never decoded): model: value 0, source "nocc"
            return "V %s %s 0 nocc" % (spath(c.constraint_path), c.tpm_type.__name__)
        return "V %s %s %d %s" % (spath(c.constraint_path), c.tpm_type.__name__, int(e.value), src)
    if isinstance(e, AnticipatedSizeConstraintExceededError):
        return "A %s %s %d %d" % (info(e.constraint), spath(e.violator_path), int(e.violator_value), int(e.exceeded_by))
    if isinstance(e, SizeConstraintExceededError):
        return "X %s %s %d" % (info(e.constraint), spath(e.violator_path), int(e.exceeded_by))
    if isinstance(e, SizeConstraintSubceededError):
        return "U %s" % info(e.constraint)
    if type(e).__name__ == "ParameterEncryptionMismatchError":
        return "M %s %d %d" % (spath(e.path), 1 if e.expected else 0, 1 if e.found else 0)
    if isinstance(e, InputStreamBytesDepletedError):
        return "D %s" % oz(e.command_code)
    if isinstance(e, InputStreamSuperfluousBytesError):
        return "S %s %s" % (hx(e.bytes_remaining), oz(e.command_code))
    return "?%s" % type(e).__name__


class Counting:
    def __init__(self, data):
        self.it = iter(data)
        self.n = 0

    def __iter__(self):
        return self

    def __next__(self):
        b = next(self.it)
        self.n += 1
        return b


def parse_root(s):
    parts = s.split(":")
    if parts[0] == "T":
        t = TYPES.get((parts[1], parts[2]))
        return t, {}
    if parts[0] == "C":
        return Command, {}
    if parts[0] == "R":
        kw = {}
        if parts[1] != "-":
            kw["command_code"] = TPM_CC(int(parts[1]))
        if parts[2] == "1":
            kw["parameter_encryption"] = True
        return Response, kw
    if parts[0] == "S":
        return CommandResponseStream, {}
    return None, {}


def show_event(ev, pulled):
    if isinstance(ev, MarshalEvent):
        v = "..." if ev.value is ... else str(int(ev.value))
        return "E %s %s %s %d" % (spath(ev.path), tname(ev.type), v, pulled)
    if isinstance(ev, WarningEvent):
        return "W " + show_err(ev.error)
    return "?event"


def run_dec(abort, root, hexs, source="bytes"):
    t, kw = parse_root(root)
    if t is None:
        return "NOROOT"
    data = b"" if hexs == "-" else bytes.fromhex(hexs)
    src = Counting(data)
    out = []
    try:
        gen = Binary.marshal(tpm_type=t, buffer=src, abort_on_error=abort, **kw)
        for ev in gen:
            out.append(show_event(ev, src.n))
        out.append("ACC")
    except InputStreamBytesDepletedError as e:
        out.append("DEP %s" % oz(e.command_code))
    except InputStreamSuperfluousBytesError as e:
        out.append("SUP %s %s" % (hx(e.bytes_remaining), oz(e.command_code)))
    except ConstraintViolatedError as e:
        rem = e.bytes_remaining
        out.append("RAISE %s rem=%s" % (show_err(e), hx(rem)))
    except Exception as e:  # noqa
        out.append("CRASH %s" % crash_name(e))
    return ";".join(out)


def crash_name(e):
    """exception class @ innermost function of tpmstream on the traceback"""
    fn = "?"
    tb = e.__traceback__
    while tb is not None:
        code = tb.tb_frame.f_code
        if "tpmstream" in code.co_filename:
            fn = code.co_name
        tb = tb.tb_next
    return "%s@%s" % (type(e).__name__, fn)


def show_obj(o):
    from dataclasses import fields, is_dataclass

    if o is None:
        return "None"
    if isinstance(o, list):
        return "[" + ",".join(show_obj(x) for x in o) + "]"
    if is_dataclass(o):
        parts = []
        for f in fields(o):
            v = getattr(o, f.name)
            if v is None and (f.name in ("handles", "authSize", "authorizationArea", "parameterSize", "parameters")
                              and type(o) in (Command, Response)):
                continue
            if v is None and type(o).__name__.startswith("TPMU"):
                continue
            parts.append("%s:%s" % (f.name, show_obj(v)))
        return "%s{%s}" % (tname(type(o)), ",".join(parts))
    return "%s=%d" % (type(o).__name__, int(o))


def run_obj(root, hexs):
    t, kw = parse_root(root)
    data = b"" if hexs == "-" else bytes.fromhex(hexs)

    class G:
        def __init__(self, g):
            self.g = g

        def __iter__(self):
            self.value = yield from self.g

    try:
        g = G(Binary.marshal(tpm_type=t, buffer=data, abort_on_error=True, **kw))
        for _ in g:
            pass
        return show_obj(g.value)
    except Exception as e:  # noqa
        return "None"


def run_objev(root, hexs):
    """obj_to_events applied to the decoder's by-product object, one item per event (no pull counts)"""
    from tpmstream.common.object import obj_to_events

    t, kw = parse_root(root)
    data = b"" if hexs == "-" else bytes.fromhex(hexs)

    class G:
        def __init__(self, g):
            self.g = g
            self.value = None

        def __iter__(self):
            self.value = yield from self.g

    try:
        g = G(Binary.marshal(tpm_type=t, buffer=data, abort_on_error=True, **kw))
        for _ in g:
            pass
    except Exception:  # noqa
        return "None"
    if g.value is None:
        return "None"
    try:
        out = []
        for ev in obj_to_events(g.value):
            v = "..." if ev.value is ... else str(int(ev.value))
            out.append("E %s %s %s" % (spath(ev.path), tname(ev.type), v))
        return ";".join(out)
    except Exception as e:  # noqa
        return "CRASH %s" % crash_name(e)


def run_evobj(root, hexs):
    """events_to_obj applied to the events of an accepted strict decode"""
    from tpmstream.common.object import events_to_obj

    t, kw = parse_root(root)
    data = b"" if hexs == "-" else bytes.fromhex(hexs)
    try:
        evs = list(Binary.marshal(tpm_type=t, buffer=data, abort_on_error=True, **kw))
    except Exception:  # noqa
        return "None"
    try:
        return show_obj(events_to_obj(evs, command_code=kw.get("command_code")))
    except Exception as e:  # noqa
        return "CRASH %s" % crash_name(e)


def run_objsh(spec):
    """C11 with a history: decode every item (strict), keep the event list and the returned object; afterwards rebuild
    every object from its kept events: equal to the kept object, and turning back into events of the kept types"""
    from tpmstream.common.object import events_to_obj, obj_to_events

    class G:
        def __init__(self, g):
            self.g = g
            self.value = None

        def __iter__(self):
            self.value = yield from self.g

    kept = []
    for k, item in enumerate(spec.split(",")):
        root, hexs = item.split("~")
        t, kw = parse_root(root)
        data = b"" if hexs == "-" else bytes.fromhex(hexs)
        try:
            g = G(Binary.marshal(tpm_type=t, buffer=data, abort_on_error=True, **kw))
            evs = list(g)
        except (InputStreamBytesDepletedError, InputStreamSuperfluousBytesError, ConstraintViolatedError):
            continue
        kept.append((k, kw, evs, g.value))
    for k, kw, evs, obj in kept:
        try:
            rebuilt = events_to_obj(evs, command_code=kw.get("command_code"))
        except Exception as e:  # noqa
            return "BAD events_to_obj-raises %d %s" % (k, type(e).__name__)
        if rebuilt != obj:
            return "BAD rebuilt!=returned %d" % k
        for nm, o in (("returned", obj), ("rebuilt", rebuilt)):
            try:
                back = list(obj_to_events(o))
            except Exception as e:  # noqa
                return "BAD obj_to_events-raises %d %s %s" % (k, nm, type(e).__name__)
            if back != evs:
                j = next((i for i, (a, b) in enumerate(zip(back, evs)) if a != b), min(len(back), len(evs)))
                return "BAD obj_to_events(%s)!=events %d at event %d" % (nm, k, j)
    return "OK %d" % len(kept)


def run_sevobj(hexs):
    """events_to_objs applied to the events of an accepted strict stream decode: one object per message"""
    from tpmstream.common.object import events_to_objs

    data = b"" if hexs == "-" else bytes.fromhex(hexs)
    try:
        evs = list(Binary.marshal(tpm_type=CommandResponseStream, buffer=data, abort_on_error=True))
    except Exception:  # noqa
        return "None"
    try:
        return ";".join(show_obj(o) for o in events_to_objs(evs))
    except Exception as e:  # noqa
        return "CRASH"


def run_intops(name, v, w):
    """C16: the typed value behaves as the plain integer (both operand orders)"""
    import operator as op

    t = PRIMS.get(name)
    z, y = int(v), int(w)
    x = t(z)
    if int(x) != z or not (x == z) or not (z == x) or (x != z) or hash(x) != hash(z):
        return "BAD identity"
    if x.__index__() != z:
        return "BAD index"
    for nm, f in (("lt", op.lt), ("le", op.le), ("gt", op.gt), ("ge", op.ge), ("eq", op.eq), ("ne", op.ne)):
        if f(x, y) != f(z, y) or f(y, x) != f(y, z):
            return "BAD " + nm
    ops = [("add", op.add), ("sub", op.sub), ("mul", op.mul), ("and", op.and_), ("or", op.or_), ("xor", op.xor)]
    if y != 0:
        ops += [("floordiv", op.floordiv), ("mod", op.mod), ("truediv", op.truediv), ("divmod", divmod)]
    for nm, f in ops:
        if f(x, y) != f(z, y):
            return "BAD " + nm
    if z != 0:
        for nm, f in (("rfloordiv", op.floordiv), ("rmod", op.mod), ("rtruediv", op.truediv), ("rdivmod", divmod)):
            if f(y, x) != f(y, z):
                return "BAD " + nm
    for nm, f in ops[:6]:
        if f(y, x) != f(y, z):
            return "BAD r" + nm
    sh = abs(y) % 70
    if (x << sh) != (z << sh) or (x >> sh) != (z >> sh):
        return "BAD shift"
    if 0 <= z < 70 and ((y << x) != (y << z) or (y >> x) != (y >> z)):
        return "BAD rshift"
    e = abs(y) % 5
    if x**e != z**e:
        return "BAD pow"
    if 0 <= z < 6 and abs(y) < 1000 and y**x != y**z:
        return "BAD rpow"
    if str(x) != format(x):
        return "BAD str %s vs %s" % (str(x), format(x))
    return "OK"


def run_int(name, v):
    t = PRIMS.get(name)
    if t is None:
        return "NOPRIM"
    z = int(v)
    x = t(z)
    try:
        by = x.to_bytes().hex()
    except OverflowError:
        by = "OVERFLOW"
    n = 8 * t._int_size
    rep = (-(2 ** (n - 1)) <= z < 2 ** (n - 1)) if t._signed else (0 <= z < 2**n)
    return "%s|%s|%s|%s" % ("1" if x.is_valid() else "0", "1" if rep else "0", by, format(x))


def collect(abort, root, hexs, source="bytes"):
    """(events, outcome, exception) of one decode"""
    t, kw = parse_root(root)
    data = b"" if hexs == "-" else bytes.fromhex(hexs)
    if source == "bytes":
        buf = data
    elif source == "bytearray":
        buf = bytearray(data)
    elif source == "list":
        buf = list(data)
    elif source == "iter":
        buf = iter(data)
    elif source == "generator":
        buf = (b for b in data)
    elif source == "counting":
        buf = Counting(data)
    elif source == "memoryview":
        buf = memoryview(data)
    else:
        raise ValueError(source)
    evs = []
    try:
        for ev in Binary.marshal(tpm_type=t, buffer=buf, abort_on_error=abort, **kw):
            if isinstance(ev, WarningEvent):
                evs.append(("W", show_err(ev.error), ev))
            else:
                evs.append(("E", ev, ev))
        return evs, "ACC", None
    except InputStreamBytesDepletedError as e:
        return evs, "DEP %s" % oz(e.command_code), e
    except InputStreamSuperfluousBytesError as e:
        return evs, "SUP %s %s" % (hx(e.bytes_remaining), oz(e.command_code)), e
    except ConstraintViolatedError as e:
        return evs, "RAISE %s rem=%s" % (show_err(e), hx(e.bytes_remaining)), e
    except Exception as e:  # noqa
        return evs, "CRASH %s" % crash_name(e), e


def run_rt(abort, root, hexs):
    """C02: re-encoding the events reproduces the input; each primitive chunk is the input slice"""
    from tpmstream.io.binary.unmarshal import to_bytes

    data = b"" if hexs == "-" else bytes.fromhex(hexs)
    evs, out, exc = collect(abort, root, hexs)
    if out != "ACC":
        return "NA " + out.split(" ")[0]
    warns = [e for e in evs if e[0] == "W"]
    if not abort and any(not w[1].startswith("V ") for w in warns):
        return "NA sizewarn"
    chunks = list(Binary.unmarshal([e[2] for e in evs]))
    if b"".join(chunks) != data:
        return "BAD join %s" % b"".join(chunks).hex()
    off = 0
    for (k, ev, raw), ch in zip(evs, chunks):
        if k == "W" or raw.value is ...:
            if ch != b"":
                return "BAD structural-event-bytes %s" % (spath(raw.path) if k == "E" else "warning")
            continue
        w = raw.type._int_size
        if len(ch) != w or data[off:off + w] != ch:
            return "BAD slice %s off=%d chunk=%s" % (spath(raw.path), off, ch.hex())
        off += w
    return "OK %d %d" % (len(evs), len(warns))


def run_src(abort, root, hexs):
    """C10: the result does not depend on the kind of iterable"""
    ref = None
    for kind in ("bytes", "bytearray", "list", "iter", "generator", "counting", "memoryview"):
        evs, out, exc = collect(abort, root, hexs, source=kind)
        sig = ";".join([show_event(e[2], 0) for e in evs] + [out])
        if ref is None:
            ref = sig
        elif sig != ref:
            return "DIFF %s" % kind
    # the hex front-end is one more lazy source: it may pull the text of at most one byte beyond the emitted fields
    r = run_hexsrc(abort, root, hexs, ref)
    if r != "SAME":
        return r
    return "SAME"


def run_hexsrc(abort, root, hexs, ref):
    from tpmstream.io.hex import Hex

    t, kw = parse_root(root)
    if t is None or hexs == "-":
        return "SAME"
    for sep in ("", " "):
        text = sep.join(hexs[i:i + 2] for i in range(0, len(hexs), 2)).encode()
        per = 2 + len(sep)
        src = Counting(text)
        out, sigs, off = None, [], 0
        try:
            for ev in Hex.marshal(tpm_type=t, buffer=src, abort_on_error=abort, **kw):
                sigs.append(show_event(ev, 0))
                if isinstance(ev, MarshalEvent):
                    if ev.value is not ...:
                        off += ev.type._int_size
                    if src.n > per * (off + 1):
                        return "DIFF hex-lookahead sep=%r %s pulled %d chars with %d bytes of fields emitted" % (sep, spath(ev.path), src.n, off)
            out = "ACC"
        except InputStreamBytesDepletedError as e:
            out = "DEP %s" % oz(e.command_code)
        except InputStreamSuperfluousBytesError as e:
            out = "SUP %s %s" % (hx(e.bytes_remaining), oz(e.command_code))
        except ConstraintViolatedError as e:
            out = "RAISE %s rem=%s" % (show_err(e), hx(e.bytes_remaining))
        except Exception as e:  # noqa
            out = "CRASH %s" % crash_name(e)
        if ";".join(sigs + [out]) != ref:
            return "DIFF hex-text sep=%r" % sep
    return "SAME"


import re

ANSI = re.compile("\x1b\\[[0-9;]*m")
PRETTY_ROW = re.compile(
    "^\x1b\\[34m(?P<type>.*?)\x1b\\[0m\\s*\x1b\\[30m(?P<indent>.*?)\x1b\\[0m\x1b\\[92m\\.(?P<name>.*?)\x1b\\[0m\\s*"
    "\x1b\\[33m(?P<hex>.*?)\x1b\\[0m ?(?:\x1b\\[33m(?P<value>.*?)\x1b\\[0m)?$", re.S)


def parse_pretty(line):
    """columns of one pretty-printed row (delimited by the colour codes)"""
    m = PRETTY_ROW.match(line)
    if not m:
        if line.startswith("\x1b[31m"):
            return {"warning": ANSI.sub("", line)}
        return None
    d = m.groupdict()
    return {"type": d["type"], "depth": d["indent"].count("|   "), "name": d["name"], "hex": d["hex"].strip(),
            "value": d["value"] if d["value"] is not None else ""}


def run_attr(name, v):
    from tpmstream.common.event import MarshalEvent, Path
    from tpmstream.common.path import PathNode
    from tpmstream.io.pretty.unmarshal import pretty_attrs

    t = PRIMS.get(name)
    if t is None:
        return "NOPRIM"
    x = t(int(v))
    if not x.is_valid():
        return "INVALID %s(%d) is rejected" % (name, int(v))
    ev = MarshalEvent(Path(PathNode("")) / PathNode("w"), t, x)
    rows = [parse_pretty(l) for l in pretty_attrs(ev)]
    attrs = x.attributes()
    if len(rows) != len(attrs):
        return "ROWS %d ATTRS %d" % (len(rows), len(attrs))
    # ... and the printer shows exactly these rows under the word's own row
    from tpmstream.io.pretty import Pretty

    printed = [parse_pretty(l) for l in Pretty.unmarshal(iter([ev]))]
    printed = [r for r in printed if r is not None]
    below = printed[1:] if printed else None
    if below is None or [r["name"] for r in below] != [r["name"] for r in rows if r is not None] or [r["value"] for r in below] != [r["value"] for r in rows if r is not None]:
        return "PRINTED %d rows below the word, %d fields" % (len(below) if below is not None else -1, len(rows))
    out = []
    for a, r in zip(attrs, rows):
        acc = getattr(x, a._name)
        bits = r["value"].split(" ")[0] if r else "?"
        if r is None or r["name"] != a._name:
            bits = "?name"
        out.append("%s=%d:%s" % (a._name, int(acc), bits))
    return ",".join(out)


_RC_WARM = [False]


def run_rc(v):
    """text form, attributes() rows, and the rows the pretty printer SHOWS for the code - after an 8-bit and a 32-bit
    attribute word have been printed in this process (the printer must not carry anything over)"""
    from tpmstream.common.event import MarshalEvent, Path
    from tpmstream.common.path import PathNode
    from tpmstream.io.pretty.unmarshal import pretty_attrs
    from tpmstream.spec.structures.constants import TPM_RC

    if not _RC_WARM[0]:
        _RC_WARM[0] = True
        for nm, val in (("TPMA_SESSION", 0xE1), ("TPMA_OBJECT", 0x00030072), ("TPM_RC", 0), ("TPM_RC", 0x1C4)):
            t = PRIMS.get(nm) or TPM_RC
            list(pretty_attrs(MarshalEvent(Path(PathNode("")) / PathNode("w"), t, t(val))))
    x = TPM_RC(int(v))
    rows = []
    for a in x.attributes():
        d = a._details or ""
        rows.append("%s:%d:%s" % (a._name, int(a._value), d.split(":")[0]))
    ev = MarshalEvent(Path(PathNode("")) / PathNode("responseCode"), TPM_RC, x)
    shown = []
    for l in pretty_attrs(ev):
        r = parse_pretty(l)
        shown.append("%s=%s" % (r["name"], r["value"].split(" ")[0]) if r else "?")
    return "%s|%s|%s" % (str(x), ",".join(rows), ",".join(shown))


def run_hist(spec):
    """C12: items = root~hex,... ; decode sequentially (A,B,..,A,B,..), then step-wise interleaved; every decode
    of the same item must give == events, == by-product objects, == objects rebuilt from the events"""
    from tpmstream.common.object import events_to_obj

    items = [x.split("~") for x in spec.split(",")]

    class G:
        def __init__(self, g):
            self.g = g
            self.value = None

        def __iter__(self):
            self.value = yield from self.g

    strict = [False]

    def start(root, hexs):
        if root in ("Pip", "Peth"):
            # a pcapng capture (raw IP / Ethernet frames) of the messages hex+hex+..., decoded as a stream
            from tpmstream.io.pcapng import Pcapng

            payloads = [bytes.fromhex(x) for x in hexs.split("+")]
            return G(Pcapng.marshal(tpm_type=CommandResponseStream, buffer=make_pcapng(payloads, root[1:]), abort_on_error=strict[0]))
        t, kw = parse_root(root)
        data = b"" if hexs == "-" else bytes.fromhex(hexs)
        return G(Binary.marshal(tpm_type=t, buffer=data, abort_on_error=strict[0], **kw))

    def finish(evs, g, root):
        kw = parse_root(root)[1]
        try:
            rebuilt = events_to_obj(evs, command_code=kw.get("command_code")) if evs else None
        except Exception as e:  # noqa
            rebuilt = "EXC " + type(e).__name__
        return evs, g.value, rebuilt

    r = _hist_mode(items, start, finish, strict, False) if not spec.startswith("!") else "BADSPEC"
    if not r.startswith("OK"):
        return r
    # a capture decodes like the bytes it carries whatever was decoded before it in this process (the histories only
    # compare decodes within the process with each other)
    for mode in (False, True):
        strict[0] = mode
        for i, (root, hexs) in enumerate(items):
            if root not in ("Pip", "Peth"):
                continue
            sigs = []
            for g in (start(root, hexs), G(Binary.marshal(tpm_type=CommandResponseStream, buffer=b"".join(bytes.fromhex(x) for x in hexs.split("+")), abort_on_error=mode))):
                evs = []
                try:
                    for e in g:
                        if isinstance(e, MarshalEvent):
                            evs.append(e)
                except Exception as e:  # noqa
                    evs.append("EXC " + type(e).__name__)
                sigs.append(evs)
            if sigs[0] != sigs[1]:
                return "BAD capture item=%d differs-from-carried-bytes %s" % (i, "strict" if mode else "warn")
    return r


def _hist_mode(items, start, finish, strict, _unused):
    for mode in (True, False):
        strict[0] = mode
        r = _hist_once(items, start, finish)
        if not r.startswith("OK"):
            return r + (" strict" if mode else " warn")
    return r


def _print_all(run):
    from tpmstream.io.events import Events
    from tpmstream.io.pretty import Pretty

    evs = [e for e in run[0] if isinstance(e, MarshalEvent)]
    for e in evs:
        try:
            str(e), repr(e)
        except Exception:  # noqa
            pass
    for o in run[1:]:
        try:
            repr(o), str(o)
        except Exception:  # noqa
            pass
    for P in (Pretty, Events):
        try:
            for _ in P.unmarshal(iter(evs)):
                pass
        except Exception:  # noqa
            pass


def _hist_once(items, start, finish):
    runs = []
    for rnd in range(2):
        for root, hexs in items:
            g = start(root, hexs)
            evs = []
            try:
                for e in g:
                    if isinstance(e, MarshalEvent):
                        evs.append(e)
                    else:
                        evs.append("W %s %s" % (type(getattr(e, "error", e)).__name__, getattr(e, "error", e)))
            except Exception as e:  # noqa
                evs.append("EXC " + type(e).__name__)
            fin = finish([x for x in evs if not (isinstance(x, str) and x.startswith("W "))], g, root)
            runs.append((evs,) + fin[1:])
        # between the rounds: print what was decoded (str / repr / the two printers). Printing is not decoding; it must
        # leave no trace in later decodes.
        if rnd == 0:
            for run in runs:
                _print_all(run)
    n = len(items)
    # interleaved: round robin over next()
    gens = [start(root, hexs) for root, hexs in items]
    its = [iter(g) for g in gens]
    out = [[] for _ in items]
    live = list(range(n))
    while live:
        for i in list(live):
            try:
                e = next(its[i])
                if isinstance(e, MarshalEvent):
                    out[i].append(e)
                else:
                    out[i].append("W %s %s" % (type(getattr(e, "error", e)).__name__, getattr(e, "error", e)))
            except StopIteration:
                live.remove(i)
            except Exception as e:  # noqa
                out[i].append("EXC " + type(e).__name__)
                live.remove(i)
    for i, (root, hexs) in enumerate(items):
        fin = finish([x for x in out[i] if not (isinstance(x, str) and x.startswith("W "))], gens[i], root)
        runs.append((out[i],) + fin[1:])
    for i in range(n):
        ref = runs[i]
        for k, other in ((1, runs[n + i]), (2, runs[2 * n + i])):
            if other[0] != ref[0]:
                return "BAD events item=%d %s" % (i, "repeat" if k == 1 else "interleaved")
            if other[1] != ref[1]:
                return "BAD object item=%d %s" % (i, "repeat" if k == 1 else "interleaved")
            if other[2] != ref[2]:
                return "BAD rebuilt item=%d %s" % (i, "repeat" if k == 1 else "interleaved")
    return "OK %d" % n


def enc_of_command_events(evs):
    """does a session of the decoded command ask for response encryption (sessionAttributes.encrypt)"""
    for k, ev, raw in evs:
        if k == "E" and raw.value is not ... and str(raw.path).endswith(".sessionAttributes") and ".authorizationArea[" in str(raw.path):
            if int(raw.value) & 0x40:
                return True
    return False


def run_stream9(spec):
    """C09: parts = hex,hex,... (command, response, command, ...). The stream decode must equal the concatenation
    of the individual decodes (Python == on events: path, type identity, value), and events_to_objs must give one
    object per message equal to the individually built objects."""
    from tpmstream.common.object import events_to_obj, events_to_objs

    parts = [bytes.fromhex(x) for x in spec.split(",")]
    stream_exc = None
    try:
        stream_events = list(Binary.marshal(tpm_type=CommandResponseStream, buffer=b"".join(parts), abort_on_error=True))
    except Exception as e:  # noqa
        # legitimate only if one of the messages, decoded on its own, raises the same kind of error
        stream_exc = type(e).__name__
        stream_events = []
    indiv = []
    objs = []
    cc = None
    enc = False
    for i, p in enumerate(parts):
        try:
            if i % 2 == 0:
                evs = list(Binary.marshal(tpm_type=Command, buffer=p, abort_on_error=True))
                cc = int.from_bytes(p[6:10], "big")
                enc = enc_of_command_events([("E", e, e) for e in evs])
                objs.append(events_to_obj(evs))
            else:
                kw = {"command_code": TPM_CC(cc)}
                if enc:
                    kw["parameter_encryption"] = True
                evs = list(Binary.marshal(tpm_type=Response, buffer=p, abort_on_error=True, **kw))
                objs.append(events_to_obj(evs, command_code=TPM_CC(cc)))
        except Exception as e:  # noqa
            if stream_exc is not None and stream_exc != type(e).__name__:
                return "BAD stream-raises %s but message %d on its own raises %s" % (stream_exc, i, type(e).__name__)
            return "NA part-%d-raises-%s" % (i, type(e).__name__)
        indiv += evs
    if stream_exc is not None:
        return "BAD stream-raises %s although every message decodes on its own" % stream_exc
    if len(stream_events) != len(indiv):
        return "BAD length stream=%d individual=%d" % (len(stream_events), len(indiv))
    for j, (a, b) in enumerate(zip(stream_events, indiv)):
        if a != b:
            return "BAD event %d stream=%s individual=%s" % (j, show_event(a, 0), show_event(b, 0))
    try:
        sobjs = list(events_to_objs(stream_events))
    except Exception as e:  # noqa
        return "BAD events_to_objs-raises %s" % type(e).__name__
    if len(sobjs) != len(parts):
        return "BAD objects count %d for %d messages" % (len(sobjs), len(parts))
    for j, (a, b) in enumerate(zip(sobjs, objs)):
        if a != b:
            return "BAD object %d" % j
    return "OK %d" % len(parts)


def run_stream9w(spec):
    """C09 in warn mode: parts = hex,hex,... ; the stream decode (events and warnings) must equal the concatenation of
    the individual warn-mode decodes (the response with its command's code and encryption expectation)"""
    parts = [bytes.fromhex(x) for x in spec.split(",")]

    def sig(evs):
        return [show_event(e, 0) for e in evs]

    try:
        stream = sig(list(Binary.marshal(tpm_type=CommandResponseStream, buffer=b"".join(parts), abort_on_error=False)))
        sexc = None
    except Exception as e:  # noqa
        stream, sexc = None, type(e).__name__
    indiv = []
    cc, enc = None, False
    for i, p in enumerate(parts):
        try:
            if i % 2 == 0:
                evs = list(Binary.marshal(tpm_type=Command, buffer=p, abort_on_error=False))
                cc = int.from_bytes(p[6:10], "big")
                enc = enc_of_command_events([("E", e, e) for e in evs if isinstance(e, MarshalEvent)])
            else:
                kw = {"command_code": TPM_CC(cc)}
                if enc:
                    kw["parameter_encryption"] = True
                evs = list(Binary.marshal(tpm_type=Response, buffer=p, abort_on_error=False, **kw))
        except Exception as e:  # noqa
            return "NA part-%d-raises-%s" % (i, type(e).__name__)
        # a message whose size field covers padding behind its fields (Subceeded) is self-contained; one that is too
        # short or too long for its size field is not comparable with its decode inside a stream
        names_ = [type(e.error).__name__ for e in evs if isinstance(e, WarningEvent)]
        if any(n_ in ("AnticipatedSizeConstraintExceededError", "InputStreamBytesDepletedError", "InputStreamSuperfluousBytesError") for n_ in names_):
            return "NA part-%d-size-problem" % i
        if "SizeConstraintExceededError" in names_:
            # a message abandoned at an overrun is comparable only if the abandoned decode consumed all of its bytes
            # (the overrunning field was the last one): nothing of it is left in the stream
            rest_ = b"".join(Binary.unmarshal([e for e in evs if isinstance(e, MarshalEvent)]))
            if len(rest_) != len(p):
                return "NA part-%d-abandoned-with-bytes-left" % i
        indiv += sig(evs)
    if sexc is not None:
        return "BAD stream-raises %s although every message decodes on its own in warn mode" % sexc
    if stream != indiv:
        j = next((k for k, (a, b) in enumerate(zip(stream, indiv)) if a != b), min(len(stream), len(indiv)))
        return "BAD event %d stream=%s individual=%s" % (j, stream[j] if j < len(stream) else None, indiv[j] if j < len(indiv) else None)
    return "OK %d" % len(parts)


def run_objs(root, hexs):
    """C11: decoder by-product == object rebuilt from events; both turn back into the decoded events; re-encoding
    gives the input"""
    from tpmstream.common.object import events_to_obj, obj_to_events

    t, kw = parse_root(root)
    data = b"" if hexs == "-" else bytes.fromhex(hexs)

    class G:
        def __init__(self, g):
            self.g = g
            self.value = None

        def __iter__(self):
            self.value = yield from self.g

    try:
        g = G(Binary.marshal(tpm_type=t, buffer=data, abort_on_error=True, **kw))
        evs = list(g)
    except (InputStreamBytesDepletedError, InputStreamSuperfluousBytesError, ConstraintViolatedError):
        return "NA"
    obj = g.value
    try:
        rebuilt = events_to_obj(evs, command_code=kw.get("command_code"))
    except Exception as e:  # noqa
        return "BAD events_to_obj-raises %s" % type(e).__name__
    if hasattr(t, "_int_size"):
        pass
    if obj != rebuilt:
        return "BAD by-product!=rebuilt"
    # the Canonical wrapper around the same conversions: from the bytes and from the object
    try:
        from tpmstream.common.canonical import Canonical

        if "parameter_encryption" not in kw:
            cb = Canonical(data, format_in=Binary, tpm_type=t, command_code=kw.get("command_code"), abort_on_error=True)
            if list(cb.events) != evs:
                return "BAD canonical-from-bytes events"
            if cb.object != obj:
                return "BAD canonical-from-bytes object"
            if obj is not None:
                co = Canonical(obj)
                if list(co.events) != evs:
                    return "BAD canonical-from-object events"
                if co.object != obj:
                    return "BAD canonical-from-object object"
    except Exception as e:  # noqa
        return "BAD canonical-raises %s" % type(e).__name__
    for nm, o in (("by-product", obj), ("rebuilt", rebuilt)):
        try:
            back = list(obj_to_events(o))
        except Exception as e:  # noqa
            return "BAD obj_to_events(%s)-raises %s" % (nm, type(e).__name__)
        if len(back) != len(evs):
            return "BAD obj_to_events(%s) length %d != %d" % (nm, len(back), len(evs))
        for j, (a, b) in enumerate(zip(back, evs)):
            if a.path != b.path:
                return "BAD obj_to_events(%s) path %d %s != %s" % (nm, j, a.path, b.path)
            if a.type != b.type:
                return "BAD obj_to_events(%s) type %d %s: %s != %s" % (nm, j, a.path, tname(a.type), tname(b.type))
            if (a.value is ...) != (b.value is ...) or (a.value is not ... and (a.value != b.value or type(a.value) is not type(b.value))):
                return "BAD obj_to_events(%s) value %d %s" % (nm, j, a.path)
        if b"".join(Binary.unmarshal(back)) != data:
            return "BAD reencode(%s)" % nm
    return "OK %d" % len(evs)


def make_pcapng(payloads, encap="ip"):
    """a pcapng capture with one TCP packet per payload (dpkt writer); encap 'ipconst': raw IP, every packet with the
    same ports and sequence number"""
    import io

    import dpkt

    f = io.BytesIO()
    w = dpkt.pcapng.Writer(f, linktype=(101 if encap in ("ip", "ipconst") else 1))
    for i, p in enumerate(payloads):
        tcp = dpkt.tcp.TCP(sport=2321, dport=(40000 if encap == "ipconst" else 40000 + i % 100), data=bytes(p))
        ip = dpkt.ip.IP(src=b"\x7f\x00\x00\x01", dst=b"\x7f\x00\x00\x01", p=dpkt.ip.IP_PROTO_TCP, data=tcp)
        ip.len = 20 + len(bytes(tcp))
        pkt = bytes(ip)
        if encap not in ("ip", "ipconst"):
            pkt = bytes(dpkt.ethernet.Ethernet(dst=b"\0" * 6, src=b"\0" * 6, type=dpkt.ethernet.ETH_TYPE_IP, data=ip))
        w.writepkt(pkt, ts=float(i))
    return f.getvalue()


def make_pcapng_mixed(payloads, pattern="eii"):
    """a pcapng section with two interfaces (0: Ethernet, 1: raw IP); packet i is framed as pattern[i % len(pattern)]
    ('e' Ethernet frame on interface 0, 'i' raw IP packet on interface 1)"""
    import struct

    import dpkt

    def block(block_type, body):
        body += b"\x00" * (-len(body) % 4)
        total = 12 + len(body)
        return struct.pack("<II", block_type, total) + body + struct.pack("<I", total)

    out = block(0x0A0D0D0A, struct.pack("<IHHq", 0x1A2B3C4D, 1, 0, -1))
    out += block(1, struct.pack("<HHI", 1, 0, 0xFFFF))
    out += block(1, struct.pack("<HHI", 101, 0, 0xFFFF))
    for i, p in enumerate(payloads):
        tcp = dpkt.tcp.TCP(sport=2321, dport=40000 + i % 100, data=bytes(p))
        ip = dpkt.ip.IP(src=b"\x7f\x00\x00\x01", dst=b"\x7f\x00\x00\x01", p=dpkt.ip.IP_PROTO_TCP, data=tcp)
        ip.len = 20 + len(bytes(tcp))
        if pattern[i % len(pattern)] == "e":
            interface, pkt = 0, bytes(dpkt.ethernet.Ethernet(dst=b"\0" * 6, src=b"\0" * 6, type=dpkt.ethernet.ETH_TYPE_IP, data=ip))
        else:
            interface, pkt = 1, bytes(ip)
        out += block(6, struct.pack("<IIIII", interface, 0, i, len(pkt), len(pkt)) + pkt)
    return out


def run_fe(kind, texthex):
    text = b"" if (texthex == "-" or kind == "pcap") else bytes.fromhex(texthex)
    if kind in ("hex", "swtpm"):
        if kind == "hex":
            from tpmstream.io.hex.marshal import parse_hex_string as parse
        else:
            from tpmstream.io.swtpm_log.marshal import parse_hex_string as parse
        out = []
        ok = "1"
        try:
            for b in parse(text):
                if not isinstance(b, int) or not 0 <= b <= 255:
                    return "NOTBYTE %r" % (b,)
                out.append(b)
        except ValueError:
            ok = "0"
        return "%s|%s" % (hx(bytes(out)), ok)
    if kind == "auto":
        from tpmstream.io.auto.marshal import detect_format_and_yield_buffer

        try:
            g = detect_format_and_yield_buffer(text, strict=False)
            fmt = next(g)
            rest = bytes(g)
            if rest != text:
                return "LOSTBYTES"
            return fmt
        except IOError:
            return "short"
    if kind == "pcap":
        import io

        from tpmstream.io.pcapng.marshal import bytes_from_pcap_file

        payloads = [] if texthex == "-" else [bytes.fromhex(x) if x != "-" else b"" for x in texthex.split(",")]
        res = None
        for encap in ("ip", "eth", "ipconst", "mix:eii", "mix:ie", "mix:eeiie"):
            data = make_pcapng(payloads, encap) if not encap.startswith("mix:") else make_pcapng_mixed(payloads, encap[4:])
            r = hx(bytes(bytes_from_pcap_file(io.BytesIO(data))))
            if res is None:
                res = r
            elif r != res:
                return "ENCAPDIFF"
        return res
    return "BADREQ"


def run_fevents(kind, abort, root, texthex):
    """decode through a front-end; events without pull counts + outcome"""
    from tpmstream.io.auto import Auto
    from tpmstream.io.hex import Hex
    from tpmstream.io.pcapng import Pcapng
    from tpmstream.io.swtpm_log import SWTPMLog

    t, kw = parse_root(root)
    if kind == "pcap":
        payloads = [] if texthex == "-" else [bytes.fromhex(x) if x != "-" else b"" for x in texthex.split(",")]
        text = make_pcapng(payloads, "ip")
        F = Pcapng
    elif kind == "autopcap":
        payloads = [] if texthex == "-" else [bytes.fromhex(x) if x != "-" else b"" for x in texthex.split(",")]
        text = make_pcapng(payloads, "eth")
        F = Auto
    elif kind == "pcapconst":
        payloads = [] if texthex == "-" else [bytes.fromhex(x) if x != "-" else b"" for x in texthex.split(",")]
        text = make_pcapng(payloads, "ipconst")
        F = Pcapng
    elif kind in ("pcapmix", "autopcapmix"):
        payloads = [] if texthex == "-" else [bytes.fromhex(x) if x != "-" else b"" for x in texthex.split(",")]
        text = make_pcapng_mixed(payloads, "eii" if kind == "pcapmix" else "ieei")
        F = Pcapng if kind == "pcapmix" else Auto
    else:
        text = b"" if texthex == "-" else bytes.fromhex(texthex)
        F = {"hex": Hex, "swtpm": SWTPMLog, "auto": Auto, "binary": Binary}[kind]
    out = []
    try:
        for ev in F.marshal(tpm_type=t, buffer=text, abort_on_error=abort, **kw):
            out.append(show_event(ev, 0).rsplit(" ", 1)[0] if isinstance(ev, MarshalEvent) else show_event(ev, 0))
        out.append("ACC")
    except InputStreamBytesDepletedError as e:
        out.append("DEP %s" % oz(e.command_code))
    except InputStreamSuperfluousBytesError as e:
        out.append("SUP %s %s" % (hx(e.bytes_remaining), oz(e.command_code)))
    except ConstraintViolatedError as e:
        out.append("RAISE %s rem=%s" % (show_err(e), hx(e.bytes_remaining)))
    except ValueError as e:
        out.append("VALUEERROR")
    except Exception as e:  # noqa
        out.append("CRASH %s" % type(e).__name__)
    return ";".join(out)


def run_fesrc(kind, abort, root, texthex):
    """C10: a front-end's result does not depend on the kind of iterable that supplies the container bytes"""
    from tpmstream.io.auto import Auto
    from tpmstream.io.hex import Hex
    from tpmstream.io.pcapng import Pcapng
    from tpmstream.io.swtpm_log import SWTPMLog

    t, kw = parse_root(root)
    text = b"" if texthex == "-" else bytes.fromhex(texthex)
    F = {"hex": Hex, "swtpm": SWTPMLog, "auto": Auto, "binary": Binary, "pcap": Pcapng}[kind]
    ref = None
    for src in ("bytes", "bytearray", "list", "iter", "generator", "counting", "memoryview"):
        buf = {"bytes": lambda: text, "bytearray": lambda: bytearray(text), "list": lambda: list(text), "iter": lambda: iter(text),
               "generator": lambda: (b for b in text), "counting": lambda: Counting(text), "memoryview": lambda: memoryview(text)}[src]()
        out = []
        try:
            for ev in F.marshal(tpm_type=t, buffer=buf, abort_on_error=abort, **kw):
                out.append(show_event(ev, 0))
            out.append("ACC")
        except InputStreamBytesDepletedError as e:
            out.append("DEP %s" % oz(e.command_code))
        except InputStreamSuperfluousBytesError as e:
            out.append("SUP %s %s" % (hx(e.bytes_remaining), oz(e.command_code)))
        except ConstraintViolatedError as e:
            out.append("RAISE %s rem=%s" % (show_err(e), hx(e.bytes_remaining)))
        except Exception as e:  # noqa
            out.append("EXC %s" % type(e).__name__)
        sig = ";".join(out)
        if ref is None:
            ref = sig
        elif sig != ref:
            return "DIFF %s: %s | bytes: %s" % (src, sig[-120:], ref[-120:])
    return "SAME"


def run_remsrc(root, hexs):
    """C13: the remainder reported with a constraint error does not depend on the kind of iterable, and is still there
    after the decode has ended (read only once the generator is finished)"""
    t, kw = parse_root(root)
    data = b"" if hexs == "-" else bytes.fromhex(hexs)
    ref = None
    for kind in ("bytes", "list", "iter", "generator", "counting"):
        buf = {"bytes": lambda: data, "list": lambda: list(data), "iter": lambda: iter(data), "generator": lambda: (b for b in data),
               "counting": lambda: Counting(data)}[kind]()
        g = Binary.marshal(tpm_type=t, buffer=buf, abort_on_error=True, **kw)
        err = None
        try:
            for _ in g:
                pass
        except ConstraintViolatedError as e:
            err = e
        except Exception as e:  # noqa
            return "NA %s" % type(e).__name__
        del g
        if err is None:
            return "NA no-error"
        try:
            # looking at the attribute (as a debugger, a logger or hasattr would) is not reading it; the first kind of
            # source is read straight away and is the reference
            if ref is not None:
                hasattr(err, "bytes_remaining")
                _seen = err.bytes_remaining
            rem = bytes(err.bytes_remaining)
        except Exception as e:  # noqa
            rem = ("EXC " + type(e).__name__).encode()
        sig = "%s rem=%s" % (type(err).__name__, rem.hex())
        if ref is None:
            ref = sig
        elif sig != ref:
            return "DIFF %s: %s | bytes: %s" % (kind, sig[-100:], ref[-100:])
    return "SAME"


def run_pretty(abort, root, hexs):
    """C14: rows of the pretty printer for the events of a decode (what was emitted before any exception);
    also runs the events printer.  Rows separated by \\x1e."""
    from tpmstream.io.events import Events
    from tpmstream.io.pretty import Pretty

    evs, out, exc = collect(abort, root, hexs)
    raw = [e[2] for e in evs]
    # history probe: what was printed before in this process must not show in what is printed now.  The same events
    # are first printed two levels deeper (a printer remembering rows by type and value would now replay their
    # indentation) and with every attribute word complemented (a printer remembering rows by type, or by a text form
    # that does not determine the value, would replay their bits); both printouts are thrown away.
    try:
        from tpmstream.common.path import Path as _P, PathNode as _PN

        def _shift(e):
            return MarshalEvent(path=_P([_PN(""), _PN("probe")]) + e.path[1:] if len(e.path) else e.path, type=e.type, value=e.value)

        def _flip(e):
            v = e.value
            if v is not ... and hasattr(v, "attributes") and hasattr(type(v), "_int_size"):
                try:
                    return MarshalEvent(path=e.path, type=e.type, value=type(v)((~int(v)) & ((1 << (8 * type(v)._int_size)) - 1)))
                except Exception:  # noqa
                    return e
            return e

        for probe in ([_shift(e) for e in raw if isinstance(e, MarshalEvent)], [_flip(e) for e in raw if isinstance(e, MarshalEvent)]):
            try:
                for _ in Pretty.unmarshal(iter(probe)):
                    pass
            except Exception:  # noqa
                pass
    except Exception:  # noqa
        pass
    try:
        lines = list(Pretty.unmarshal(iter(raw)))
    except Exception as e:  # noqa
        return "CRASH pretty %s" % crash_name(e)
    try:
        elines = list(Events.unmarshal(iter(raw)))
    except Exception as e:  # noqa
        return "CRASH events %s" % crash_name(e)
    if len(elines) != len(raw):
        return "EVENTSPRINTER %d lines for %d events" % (len(elines), len(raw))
    rows = []
    for l in lines:
        r = parse_pretty(l)
        if r is None:
            rows.append("?" + ANSI.sub("", l))
        elif "warning" in r:
            rows.append("W")
        elif r["type"] == "":
            rows.append("B|%d|%s|%s" % (r["depth"], r["name"], r["value"].split(" ")[0]))
        else:
            rows.append("F|%s|%d|%s|%s|%s" % (r["type"], r["depth"], r["name"], r["hex"] or "-", r["value"]))
    return "\x1e".join(rows)


def run_cliexp(fmt_in, fmt_out, typ, cmd, path):
    """what the library produces for the bytes of file [path] (colour codes stripped): the expected stdout of
    `tpmstream convert --in fmt_in --out fmt_out [--type typ [--command cmd]] path`"""
    import binascii

    from tpmstream.io.auto import Auto
    from tpmstream.io.events import Events
    from tpmstream.io.hex import Hex
    from tpmstream.io.pcapng import Pcapng
    from tpmstream.io.pretty import Pretty
    from tpmstream.io.swtpm_log import SWTPMLog

    fi = {"auto": Auto, "binary": Binary, "hex": Hex, "pcapng": Pcapng, "swtpm-log": SWTPMLog}[fmt_in]
    fo = {"binary": Binary, "events": Events, "pretty": Pretty}[fmt_out]
    data = b"".join(open(x, "rb").read() for x in path.split("+"))
    kw = {}
    if typ == "-":
        t = CommandResponseStream
    else:
        t = TYPES.get(("S", typ))
        if typ == "Response":
            kw["command_code"] = next(cc for cc in TPM_CC if str(cc) == "TPM_CC." + cmd)
    out = []
    try:
        for line in fo.unmarshal(fi.marshal(tpm_type=t, buffer=data, abort_on_error=False, **kw)):
            if isinstance(line, bytes):
                out.append(" " + binascii.hexlify(line).decode())
            else:
                out.append(ANSI.sub("", line) + "\n")
        status = "0"
    except Exception as e:  # noqa
        status = "EXC:" + type(e).__name__
    return status + "\x1e" + "".join(out).replace("\n", "\x1f")


def run_typeexp(fmt_in, path):
    """`tpmstream type`: the types (and response command codes) under which the file decodes strictly"""
    from tpmstream.io.auto import Auto
    from tpmstream.io.hex import Hex
    from tpmstream.io.pcapng import Pcapng
    from tpmstream.io.swtpm_log import SWTPMLog

    fi = {"auto": Auto, "binary": Binary, "hex": Hex, "pcapng": Pcapng, "swtpm-log": SWTPMLog}[fmt_in]
    data = open(path, "rb").read()
    names = []
    for t in all_types:
        if t is CommandResponseStream or t.__name__.startswith("TPMU"):
            continue
        ccs = list(TPM_CC) if t is Response else [None]
        for cc in ccs:
            try:
                for _ in fi.marshal(tpm_type=t, buffer=data, command_code=cc, abort_on_error=True):
                    pass
                names.append("Response (%s)" % cc if t is Response else t.__name__)
            except (InputStreamBytesDepletedError, InputStreamSuperfluousBytesError, ConstraintViolatedError):
                pass
            except Exception as e:  # noqa
                names.append("EXC:%s:%s" % (t.__name__, type(e).__name__))
    return "\x1f".join(names)


def handle(line):
    parts = line.split(" ")
    if parts[0] == "cliexp":
        return run_cliexp(*parts[1:6])
    if parts[0] == "typeexp":
        return run_typeexp(parts[1], parts[2])
    if parts[0] == "pretty":
        return run_pretty(parts[2] == "1", parts[3], parts[4])
    if parts[0] == "fe":
        return run_fe(parts[1], parts[2])
    if parts[0] == "fevents":
        return run_fevents(parts[1], parts[2] == "1", parts[3], parts[4])
    if parts[0] == "fesrc":
        return run_fesrc(parts[1], parts[2] == "1", parts[3], parts[4])
    if parts[0] == "remsrc":
        return run_remsrc(parts[1], parts[2])
    if parts[0] == "stream9":
        return run_stream9(parts[1])
    if parts[0] == "stream9w":
        return run_stream9w(parts[1])
    if parts[0] == "objs":
        return run_objs(parts[1], parts[2])
    if parts[0] == "hist":
        return run_hist(parts[1])
    if parts[0] == "objsh":
        return run_objsh(parts[1])
    if parts[0] == "rc":
        return run_rc(parts[2])
    if parts[0] == "attr":
        return run_attr(parts[2], parts[3])
    if parts[0] == "rt":
        return run_rt(parts[1] == "1", parts[2], parts[3])
    if parts[0] == "src":
        return run_src(parts[1] == "1", parts[2], parts[3])
    if parts[0] == "dec":
        return run_dec(parts[2] == "1", parts[3], parts[4])
    if parts[0] == "obj":
        return run_obj(parts[2], parts[3])
    if parts[0] == "objev":
        return run_objev(parts[2], parts[3])
    if parts[0] == "evobj":
        return run_evobj(parts[2], parts[3])
    if parts[0] == "sevobj":
        return run_sevobj(parts[2])
    if parts[0] == "int":
        return run_int(parts[2], parts[3])
    if parts[0] == "intops":
        return run_intops(parts[1], parts[2], parts[3])
    return "BADREQ"


def main():
    for line in sys.stdin:
        line = line.rstrip("\n")
        if not line:
            print("")
            continue
        try:
            print(handle(line))
        except Exception as e:  # noqa
            print("EXC %s %s" % (type(e).__name__, str(e).replace("\n", " ")[:200]))
    sys.stdout.flush()


if __name__ == "__main__":
    main()
