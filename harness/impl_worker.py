"""Implementation side of the correspondence: reads request lines (same syntax as ocaml/driver.ml),
runs tpmstream from PYTHONPATH (/repo/src), prints canonical result lines."""
import sys
import traceback

from tpmstream.common.error import (
    AnticipatedSizeConstraintExceededError,
    ConstraintViolatedError,
    InputStreamBytesDepletedError,
    InputStreamSuperfluousBytesError,
    SizeConstraintExceededError,
    SizeConstraintSubceededError,
    ValueConstraintViolatedError,
)
from tpmstream.common.event import MarshalEvent, WarningEvent
from tpmstream.common.util import is_list
from tpmstream.io.binary import Binary
from tpmstream.spec import all_types
from tpmstream.spec.commands import Command, CommandResponseStream, Response
from tpmstream.spec.structures.constants import TPM_CC

TYPES = {}
for t in all_types:
    TYPES.setdefault(("S", t.__name__), t)
for which, m in (("CH", Command._type_maps["handles"]), ("CP", Command._type_maps["parameters"]),
                 ("RH", Response._type_maps["handles"]), ("RP", Response._type_maps["parameters"])):
    for t in m.values():
        TYPES.setdefault((which, t.__name__), t)
PRIMS = {}


def _collect_prims():
    from dataclasses import fields, is_dataclass

    seen = set()

    def walk(t):
        if t is None or id(t) in seen:
            return
        seen.add(id(t))
        if is_list(t):
            walk(t.__args__[0])
            return
        if hasattr(t, "_int_size"):
            PRIMS.setdefault(t.__name__, t)
            return
        if is_dataclass(t):
            for f in fields(t):
                if f.type is not None and not isinstance(f.type, str) and f.type.__class__.__name__ != "_SpecialForm":
                    try:
                        walk(f.type)
                    except Exception:
                        pass

    for t in TYPES.values():
        if t in (Command, Response, CommandResponseStream):
            continue
        walk(t)
    from tpmstream.spec.commands.params_common import TPM2B_ENCRYPTED_PARAM
    from tpmstream.spec.structures.structures import TPMS_AUTH_COMMAND, TPMS_AUTH_RESPONSE

    for t in (TPM2B_ENCRYPTED_PARAM, TPMS_AUTH_COMMAND, TPMS_AUTH_RESPONSE):
        walk(t)
    for f in fields(Command) + fields(Response):
        if hasattr(f.type, "_int_size"):
            PRIMS.setdefault(f.type.__name__, f.type)


_collect_prims()


def tname(t):
    if t is None:
        return "None"
    if is_list(t):
        return "list:" + t.__args__[0].__name__
    if getattr(t, "_encrypted", False):
        return "enc:" + t.__name__
    return t.__name__


def spath(p):
    return "/" + str(p)


def opath(p):
    return "-" if p is None else spath(p)


def oz(v):
    return "-" if v is None else str(int(v))


def hx(b):
    if b is None:
        return "-"
    b = bytes(b)
    return b.hex() if b else "-"


def info(c):
    return "%s %s %d" % (opath(c.constraint_path), oz(c.size_max), int(c.size_already))


def show_err(e):
    if isinstance(e, ValueConstraintViolatedError):
        c = e.constraint
        vv = c.valid_values
        if vv is getattr(c.tpm_type, "_valid_values", None):
            src = "type"
        elif len(vv._values) == 1 and vv._values[0] is TPM_CC:
            src = "cc"
        else:
            src = "sel"
        return "V %s %s %d %s" % (spath(c.constraint_path), c.tpm_type.__name__, int(e.value), src)
    if isinstance(e, AnticipatedSizeConstraintExceededError):
        return "A %s %s %d %d" % (info(e.constraint), spath(e.violator_path), int(e.violator_value), int(e.exceeded_by))
    if isinstance(e, SizeConstraintExceededError):
        return "X %s %s %d" % (info(e.constraint), spath(e.violator_path), int(e.exceeded_by))
    if isinstance(e, SizeConstraintSubceededError):
        return "U %s" % info(e.constraint)
    if isinstance(e, InputStreamBytesDepletedError):
        return "D %s" % oz(e.command_code)
    if isinstance(e, InputStreamSuperfluousBytesError):
        return "S %s %s" % (hx(e.bytes_remaining), oz(e.command_code))
    return "?%s" % type(e).__name__


class Counting:
    def __init__(self, data):
        self.it = iter(data)
        self.n = 0

    def __iter__(self):
        return self

    def __next__(self):
        b = next(self.it)
        self.n += 1
        return b


def parse_root(s):
    parts = s.split(":")
    if parts[0] == "T":
        t = TYPES.get((parts[1], parts[2]))
        return t, {}
    if parts[0] == "C":
        return Command, {}
    if parts[0] == "R":
        kw = {}
        if parts[1] != "-":
            kw["command_code"] = TPM_CC(int(parts[1]))
        if parts[2] == "1":
            kw["parameter_encryption"] = True
        return Response, kw
    if parts[0] == "S":
        return CommandResponseStream, {}
    return None, {}


def show_event(ev, pulled):
    if isinstance(ev, MarshalEvent):
        v = "..." if ev.value is ... else str(int(ev.value))
        return "E %s %s %s %d" % (spath(ev.path), tname(ev.type), v, pulled)
    if isinstance(ev, WarningEvent):
        return "W " + show_err(ev.error)
    return "?event"


def run_dec(abort, root, hexs, source="bytes"):
    t, kw = parse_root(root)
    if t is None:
        return "NOROOT"
    data = b"" if hexs == "-" else bytes.fromhex(hexs)
    src = Counting(data)
    out = []
    try:
        gen = Binary.marshal(tpm_type=t, buffer=src, abort_on_error=abort, **kw)
        for ev in gen:
            out.append(show_event(ev, src.n))
        out.append("ACC")
    except InputStreamBytesDepletedError as e:
        out.append("DEP %s" % oz(e.command_code))
    except InputStreamSuperfluousBytesError as e:
        out.append("SUP %s %s" % (hx(e.bytes_remaining), oz(e.command_code)))
    except ConstraintViolatedError as e:
        rem = e.bytes_remaining
        out.append("RAISE %s rem=%s" % (show_err(e), hx(rem)))
    except Exception as e:  # noqa
        out.append("CRASH %s" % type(e).__name__)
    return ";".join(out)


def show_obj(o):
    from dataclasses import fields, is_dataclass

    if o is None:
        return "None"
    if isinstance(o, list):
        return "[" + ",".join(show_obj(x) for x in o) + "]"
    if is_dataclass(o):
        parts = []
        for f in fields(o):
            v = getattr(o, f.name)
            if v is None and (f.name in ("handles", "authSize", "authorizationArea", "parameterSize", "parameters")
                              and type(o) in (Command, Response)):
                continue
            if v is None and type(o).__name__.startswith("TPMU"):
                continue
            parts.append("%s:%s" % (f.name, show_obj(v)))
        return "%s{%s}" % (tname(type(o)), ",".join(parts))
    return "%s=%d" % (type(o).__name__, int(o))


def run_obj(root, hexs):
    t, kw = parse_root(root)
    data = b"" if hexs == "-" else bytes.fromhex(hexs)

    class G:
        def __init__(self, g):
            self.g = g

        def __iter__(self):
            self.value = yield from self.g

    try:
        g = G(Binary.marshal(tpm_type=t, buffer=data, abort_on_error=True, **kw))
        for _ in g:
            pass
        return show_obj(g.value)
    except Exception as e:  # noqa
        return "None"


def run_intops(name, v, w):
    """C16: the typed value behaves as the plain integer (both operand orders)"""
    import operator as op

    t = PRIMS.get(name)
    z, y = int(v), int(w)
    x = t(z)
    if int(x) != z or not (x == z) or not (z == x) or (x != z) or hash(x) != hash(z):
        return "BAD identity"
    if x.__index__() != z:
        return "BAD index"
    for nm, f in (("lt", op.lt), ("le", op.le), ("gt", op.gt), ("ge", op.ge), ("eq", op.eq), ("ne", op.ne)):
        if f(x, y) != f(z, y) or f(y, x) != f(y, z):
            return "BAD " + nm
    ops = [("add", op.add), ("sub", op.sub), ("mul", op.mul), ("and", op.and_), ("or", op.or_), ("xor", op.xor)]
    if y != 0:
        ops += [("floordiv", op.floordiv), ("mod", op.mod), ("truediv", op.truediv), ("divmod", divmod)]
    for nm, f in ops:
        if f(x, y) != f(z, y):
            return "BAD " + nm
    if z != 0:
        for nm, f in (("rfloordiv", op.floordiv), ("rmod", op.mod), ("rtruediv", op.truediv), ("rdivmod", divmod)):
            if f(y, x) != f(y, z):
                return "BAD " + nm
    for nm, f in ops[:6]:
        if f(y, x) != f(y, z):
            return "BAD r" + nm
    sh = abs(y) % 70
    if (x << sh) != (z << sh) or (x >> sh) != (z >> sh):
        return "BAD shift"
    if 0 <= z < 70 and ((y << x) != (y << z) or (y >> x) != (y >> z)):
        return "BAD rshift"
    e = abs(y) % 5
    if x**e != z**e:
        return "BAD pow"
    if 0 <= z < 6 and abs(y) < 1000 and y**x != y**z:
        return "BAD rpow"
    if str(x) != format(x):
        return "BAD str %s vs %s" % (str(x), format(x))
    return "OK"


def run_int(name, v):
    t = PRIMS.get(name)
    if t is None:
        return "NOPRIM"
    z = int(v)
    x = t(z)
    try:
        by = x.to_bytes().hex()
    except OverflowError:
        by = "OVERFLOW"
    n = 8 * t._int_size
    rep = (-(2 ** (n - 1)) <= z < 2 ** (n - 1)) if t._signed else (0 <= z < 2**n)
    return "%s|%s|%s|%s" % ("1" if x.is_valid() else "0", "1" if rep else "0", by, format(x))


def collect(abort, root, hexs, source="bytes"):
    """(events, outcome, exception) of one decode"""
    t, kw = parse_root(root)
    data = b"" if hexs == "-" else bytes.fromhex(hexs)
    if source == "bytes":
        buf = data
    elif source == "bytearray":
        buf = bytearray(data)
    elif source == "list":
        buf = list(data)
    elif source == "iter":
        buf = iter(data)
    elif source == "generator":
        buf = (b for b in data)
    elif source == "counting":
        buf = Counting(data)
    elif source == "memoryview":
        buf = memoryview(data)
    else:
        raise ValueError(source)
    evs = []
    try:
        for ev in Binary.marshal(tpm_type=t, buffer=buf, abort_on_error=abort, **kw):
            if isinstance(ev, WarningEvent):
                evs.append(("W", show_err(ev.error), ev))
            else:
                evs.append(("E", ev, ev))
        return evs, "ACC", None
    except InputStreamBytesDepletedError as e:
        return evs, "DEP %s" % oz(e.command_code), e
    except InputStreamSuperfluousBytesError as e:
        return evs, "SUP %s %s" % (hx(e.bytes_remaining), oz(e.command_code)), e
    except ConstraintViolatedError as e:
        return evs, "RAISE %s rem=%s" % (show_err(e), hx(e.bytes_remaining)), e
    except Exception as e:  # noqa
        return evs, "CRASH %s" % type(e).__name__, e


def run_rt(abort, root, hexs):
    """C02: re-encoding the events reproduces the input; each primitive chunk is the input slice"""
    from tpmstream.io.binary.unmarshal import to_bytes

    data = b"" if hexs == "-" else bytes.fromhex(hexs)
    evs, out, exc = collect(abort, root, hexs)
    if out != "ACC":
        return "NA " + out.split(" ")[0]
    warns = [e for e in evs if e[0] == "W"]
    if any(not w[1].startswith("V ") for w in warns):
        return "NA sizewarn"
    chunks = list(Binary.unmarshal([e[2] for e in evs]))
    if b"".join(chunks) != data:
        return "BAD join %s" % b"".join(chunks).hex()
    off = 0
    for (k, ev, raw), ch in zip(evs, chunks):
        if k == "W" or raw.value is ...:
            if ch != b"":
                return "BAD structural-event-bytes %s" % (spath(raw.path) if k == "E" else "warning")
            continue
        w = raw.type._int_size
        if len(ch) != w or data[off:off + w] != ch:
            return "BAD slice %s off=%d chunk=%s" % (spath(raw.path), off, ch.hex())
        off += w
    return "OK %d %d" % (len(evs), len(warns))


def run_src(abort, root, hexs):
    """C10: the result does not depend on the kind of iterable"""
    ref = None
    for kind in ("bytes", "bytearray", "list", "iter", "generator", "counting", "memoryview"):
        evs, out, exc = collect(abort, root, hexs, source=kind)
        sig = ";".join([show_event(e[2], 0) for e in evs] + [out])
        if ref is None:
            ref = sig
        elif sig != ref:
            return "DIFF %s" % kind
    return "SAME"


import re

ANSI = re.compile("\x1b\\[[0-9;]*m")
PRETTY_ROW = re.compile(
    "^\x1b\\[34m(?P<type>.*?)\x1b\\[0m\\s*\x1b\\[30m(?P<indent>.*?)\x1b\\[0m\x1b\\[92m\\.(?P<name>.*?)\x1b\\[0m\\s*"
    "\x1b\\[33m(?P<hex>.*?)\x1b\\[0m ?(?:\x1b\\[33m(?P<value>.*?)\x1b\\[0m)?$", re.S)


def parse_pretty(line):
    """columns of one pretty-printed row (delimited by the colour codes)"""
    m = PRETTY_ROW.match(line)
    if not m:
        if line.startswith("\x1b[31m"):
            return {"warning": ANSI.sub("", line)}
        return None
    d = m.groupdict()
    return {"type": d["type"], "depth": d["indent"].count("|   "), "name": d["name"], "hex": d["hex"].strip(),
            "value": d["value"] if d["value"] is not None else ""}


def run_attr(name, v):
    from tpmstream.common.event import MarshalEvent, Path
    from tpmstream.common.path import PathNode
    from tpmstream.io.pretty.unmarshal import pretty_attrs

    t = PRIMS.get(name)
    if t is None:
        return "NOPRIM"
    x = t(int(v))
    ev = MarshalEvent(Path(PathNode("")) / PathNode("w"), t, x)
    rows = [parse_pretty(l) for l in pretty_attrs(ev)]
    attrs = x.attributes()
    if len(rows) != len(attrs):
        return "ROWS %d ATTRS %d" % (len(rows), len(attrs))
    out = []
    for a, r in zip(attrs, rows):
        acc = getattr(x, a._name)
        bits = r["value"].split(" ")[0] if r else "?"
        if r is None or r["name"] != a._name:
            bits = "?name"
        out.append("%s=%d:%s" % (a._name, int(acc), bits))
    return ",".join(out)


def run_rc(v):
    from tpmstream.spec.structures.constants import TPM_RC

    x = TPM_RC(int(v))
    rows = []
    for a in x.attributes():
        d = a._details or ""
        rows.append("%s:%d:%s" % (a._name, int(a._value), d.split(":")[0]))
    return "%s|%s" % (str(x), ",".join(rows))


def handle(line):
    parts = line.split(" ")
    if parts[0] == "rc":
        return run_rc(parts[2])
    if parts[0] == "attr":
        return run_attr(parts[2], parts[3])
    if parts[0] == "rt":
        return run_rt(parts[1] == "1", parts[2], parts[3])
    if parts[0] == "src":
        return run_src(parts[1] == "1", parts[2], parts[3])
    if parts[0] == "dec":
        return run_dec(parts[2] == "1", parts[3], parts[4])
    if parts[0] == "obj":
        return run_obj(parts[2], parts[3])
    if parts[0] == "int":
        return run_int(parts[2], parts[3])
    if parts[0] == "intops":
        return run_intops(parts[1], parts[2], parts[3])
    return "BADREQ"


def main():
    for line in sys.stdin:
        line = line.rstrip("\n")
        if not line:
            print("")
            continue
        try:
            print(handle(line))
        except Exception as e:  # noqa
            print("EXC %s %s" % (type(e).__name__, str(e).replace("\n", " ")[:200]))
    sys.stdout.flush()


if __name__ == "__main__":
    main()
