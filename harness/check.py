#!/venv/bin/python
"""./check Cxx [--tier quick|thorough] [--replay FILE]   (cwd /verif)

Decides one property on /repo's current working tree:
  1. regenerate coq/gen/Tables.v from /repo (translator) and rebuild the Coq development (full .vo);
  2. obligations: Properties/Cxx.v must compile, Print Assumptions closed (or std-lib axioms only);
  3. correspondence: extracted model vs implementation on this run's inputs;
  4. oracle: the property evaluated directly on the implementation's output (expected values from
     the extracted specification at the pinned tables).
Exit 0 / exit 1 + "VIOLATION property=Cxx replay=<file>" as described in DESIGN.md section 5."""
import json
import os
import re
import sys
import time

HERE = os.path.dirname(os.path.abspath(__file__))
sys.path.insert(0, HERE)
import common  # noqa: E402
from common import COQ, VERIF, Run  # noqa: E402


def theorems_in(prop_file):
    path = os.path.join(COQ, prop_file)
    if not os.path.exists(path):
        return []
    with open(path) as f:
        text = f.read()
    return re.findall(r"^\s*(?:Theorem|Corollary)\s+([A-Za-z0-9_']+)", text, flags=re.M)


def main():
    args = sys.argv[1:]
    if not args:
        sys.exit("usage: check Cxx [--tier quick|thorough] [--replay file]")
    pid = args[0]
    tier = os.environ.get("VERIF_TIER", "quick")
    replay = None
    i = 1
    while i < len(args):
        if args[i] == "--tier":
            tier = args[i + 1]
            i += 2
        elif args[i] == "--replay":
            replay = args[i + 1]
            i += 2
        else:
            i += 1
    if tier not in ("quick", "thorough"):
        tier = "quick"
    try:
        seed = int(os.environ.get("VERIF_SEED", "1"))
    except ValueError:
        seed = 1
    R = Run(pid, tier, seed)
    import props

    if pid not in props.RUNNERS:
        sys.exit("unknown property %s" % pid)

    ctx = {"tier": tier, "replay": replay}
    # 1. tables
    ok, msg, cur = common.regenerate_tables()
    if not ok:
        R.obligations.append(("translate /repo tables", False))
        R.violation("tables-untranslatable", "the layout tables of /repo could not be imported/translated: " + msg[-1500:],
                    {"translator_output": msg[-4000:], "theorem": "gen/Tables.v could not be regenerated"}, found_input=False)
        sys.exit(R.finish(level=props.LEVEL.get(pid, "proof")))
    ctx["tables"] = cur
    ctx["pinned"] = common.pinned_tables()
    ctx["tables_changed"] = json.dumps(cur, sort_keys=True) != json.dumps(ctx["pinned"], sort_keys=True)

    # 2. build + obligations
    t0 = time.time()
    okb, log, failed = common.build()
    ctx["build_ok"] = okb
    ctx["build_log"] = log
    ctx["build_failed"] = failed
    bad_src = common.scan_sources()
    prop_file = "Properties/%s.v" % pid
    prop_vo = os.path.join(COQ, "Properties", pid + ".vo")
    src = os.path.join(COQ, prop_file)
    thms = theorems_in(prop_file)
    prop_ok = os.path.exists(prop_vo) and os.path.exists(src) and os.path.getmtime(prop_vo) >= os.path.getmtime(src) and not any(f.startswith("Properties/%s" % pid) for f in failed)
    # a failed dependency leaves a stale .vo behind: trust make's verdict for this target
    if prop_ok and not okb:
        rc, tlog = common.sh(["timeout", "1800", "make", "Properties/%s.vo" % pid], cwd=COQ)
        prop_ok = rc == 0
        if not prop_ok:
            log = tlog
    axioms = []
    closed = 0
    if prop_ok and os.path.exists(src):
        rc, closed, axioms, alog = common.assumptions_of(prop_file)
        bad_ax = [a for a in axioms if a.split(".")[-1] not in {x.split(".")[-1] for x in common.STD_AXIOMS_OK}]
        if rc != 0 or bad_ax:
            prop_ok = False
            log = alog
        R.trusted.append("Coq 8.16.1 kernel (coqc), vm_compute; no native_compute")
        R.trusted.append("Print Assumptions: %d theorem(s) closed under the global context; axioms: %s" % (closed, axioms or "none"))
    if bad_src:
        prop_ok = False
        log = "forbidden constructs: " + "; ".join(bad_src[:10])
    for t in thms:
        R.obligations.append((t, prop_ok))
    if not thms:
        R.obligations.append((prop_file + " (no theorem found)", False))
        prop_ok = False
    ctx["prop_ok"] = prop_ok
    ctx["prop_log"] = log
    R.notes.append("coq build %.1fs ok=%s failed=%s" % (time.time() - t0, okb, failed[:5]))

    # model executable
    dok, dlog = common.build_driver()
    ctx["driver_ok"] = dok
    if not dok:
        R.notes.append("extracted model could not be built: " + dlog[-500:])

    # thorough: independent re-check of the compiled proofs
    if tier == "thorough" and prop_ok:
        rc, clog = common.sh(["timeout", "3000", "coqchk", "-silent", "-o", "-Q", ".", "TV", "TV.Properties.%s" % pid], cwd=COQ, timeout=3100)
        R.notes.append("coqchk rc=%d: %s" % (rc, clog[-600:].replace("\n", " | ")))
        R.trusted.append("coqchk -o re-checked TV.Properties.%s (rc=%d)" % (pid, rc))
        if rc != 0:
            prop_ok = False
            ctx["prop_ok"] = False
            log = clog

    # 3+4. correspondence + oracle
    try:
        props.RUNNERS[pid](R, ctx)
    except common.ImplWorkerError as e:
        R.violation("impl-worker-failed", "the implementation could not be run: %s" % e, {"error": str(e), "theorem": "correspondence harness"}, found_input=False)

    if not ctx["prop_ok"] and not R.violations:
        excerpt = "\n".join(l for l in log.split("\n") if l.strip())[-1800:]
        R.violation("obligation-broken:" + pid,
                    "proof obligations of %s no longer check (theorems %s) and no failing input was found by the search" % (prop_file, ", ".join(thms) or "-"),
                    {"theorem": "%s: %s" % (prop_file, ", ".join(thms)), "coq_output": excerpt}, found_input=False)
    sys.exit(R.finish(level=props.LEVEL.get(pid, "proof"), assumptions=props.ASSUME.get(pid, [])))


if __name__ == "__main__":
    main()
