"""Per-property correspondence + oracle runs.  Each runner gets the Run (reporting) and ctx."""
import json
import os
from collections import Counter

import common
from cases import Cases

LEVEL = {}
ASSUME = {}
RUNNERS = {}


def runner(pid, level="proof", assume=None):
    def deco(f):
        RUNNERS[pid] = f
        LEVEL[pid] = level
        ASSUME[pid] = assume or []
        return f

    return deco


# ----------------------------------------------------------------------------- helpers


def split_result(line):
    """'E ..;E ..;W ..;OUT' -> (events list, outcome string)"""
    parts = line.split(";")
    return parts[:-1], parts[-1]


def strip_pulled(ev):
    if ev.startswith("E "):
        return ev.rsplit(" ", 1)[0]
    return ev


def norm_crash(line):
    evs, out = split_result(line)
    if out.startswith("CRASH"):
        out = "CRASH"
    return ";".join(evs + [out])


def no_pulled(line):
    evs, out = split_result(line)
    return ";".join([strip_pulled(e) for e in evs] + [out])


def out_class(out):
    return out.split(" ")[0]


def err_class(out):
    # RAISE V|X|A|U ...
    p = out.split(" ")
    return p[0] + (":" + p[1] if p[0] == "RAISE" and len(p) > 1 else "")


def h(b):
    return bytes(b).hex() or "-"


def dec_reqs(cases, mode, tb="cur"):
    return ["dec %s %s %s %s" % (tb, mode, root, h(b)) for (_l, root, b, _i) in cases]


def spec_reqs(cases):
    return ["spec pin %s %s" % (root, h(b)) for (_l, root, b, _i) in cases]


def correspondence(R, ctx, reqs, impl, model, what="events, pull counts, outcome"):
    """model vs implementation, line by line. Returns list of indices that disagree."""
    bad = [k for k in range(len(reqs)) if norm_crash(impl[k]) != norm_crash(model[k])]
    R.coverage["correspondence_cases"] = R.coverage.get("correspondence_cases", 0) + len(reqs)
    R.coverage["correspondence_disagreements"] = R.coverage.get("correspondence_disagreements", 0) + len(bad)
    R.coverage["correspondence_compares"] = what
    return bad


def report_disagreements(R, ctx, reqs, impl, model, bad, oracle_flagged):
    """a disagreement where the oracle saw nothing wrong: the model no longer describes the code"""
    for k in bad:
        if k in oracle_flagged:
            continue
        ie, io = split_result(impl[k])
        me, mo = split_result(model[k])
        pos = next((j for j, (a, b) in enumerate(zip(ie + [io], me + [mo])) if a != b), min(len(ie), len(me)))
        R.violation("correspondence:" + R.pid,
                    "model and implementation differ on `%s` (first difference at item %d: impl=%r model=%r); the property's oracle did not flag this input"
                    % (reqs[k][:300], pos, (ie + [io])[pos] if pos <= len(ie) else None, (me + [mo])[pos] if pos <= len(me) else None),
                    {"request": reqs[k], "implementation": impl[k], "model": model[k],
                     "theorem": "correspondence model<->implementation (%s)" % R.pid}, found_input=False)
        break


def distribution(R, cases, impl):
    labels = Counter(c[0] for c in cases)
    outs = Counter(err_class(split_result(x)[1]) for x in impl)
    lens = Counter(min(len(c[2]) // 16 * 16, 512) for c in cases)
    roots = Counter(c[1].split(":")[0] for c in cases)
    d = R.coverage.setdefault("distribution", {})
    d["labels"] = dict(labels)
    d["outcomes"] = dict(outs)
    d["length_buckets"] = {str(k): v for k, v in sorted(lens.items())}
    d["roots"] = dict(roots)
    distinct = set((c[0], c[1], err_class(split_result(x)[1]), min(len(c[2]) // 8, 64)) for c, x in zip(cases, impl))
    R.coverage["evaluations"] = R.coverage.get("evaluations", 0) + len(cases)
    R.coverage["distinct_nontrivial"] = R.coverage.get("distinct_nontrivial", 0) + len(distinct)
    R.coverage["rule"] = ("cases are generated from the pinned layout tables (table-directed well-formed values, fault injection, cuts, "
                          "mutations of corpus packets); a case is counted once per distinct (stream label, root, outcome class, length/8 bucket) tuple")
    R.coverage.setdefault("samples", [])
    for c, x in list(zip(cases, impl))[:3]:
        R.coverage["samples"].append({"label": c[0], "root": c[1], "input": h(c[2])[:120], "impl": x[-160:]})


def prim_width(ctx, tname):
    p = ctx["pinned"]["prims"].get(tname)
    return p["width"] if p else None


def spans_of(ctx, events):
    """events (strings 'E /path type value [pulled]') -> list of (event_without_pulled, off_before, off_after)"""
    out = []
    off = 0
    for e in events:
        if not e.startswith("E "):
            out.append((e, off, off))
            continue
        f = e.split(" ")
        w = prim_width(ctx, f[2]) if f[3] != "..." else 0
        if w is None:
            w = 0
        out.append((" ".join(f[:4]), off, off + w))
        off += w
    return out


def last_cc(events):
    cc = "-"
    for e in events:
        f = e.split(" ")
        if f[0] == "E" and f[1] == "/.commandCode":
            cc = f[3]
    return cc


def replay_of(case, mode, impl_line, extra=None):
    d = {"root": case[1], "mode": "strict" if mode == "1" else "warn", "input_hex": h(case[2]), "label": case[0],
         "implementation": impl_line,
         "how": "PYTHONPATH=/repo/src /venv/bin/python /verif/harness/impl_worker.py <<< 'dec cur %s %s %s'" % (mode, case[1], h(case[2]))}
    if extra:
        d.update(extra)
    return d


def engine(R, ctx, cases, modes=("1",), need_spec=False):
    """runs implementation + model (+ spec) on the cases; returns dict mode -> (reqs, impl, model), spec list"""
    res = {}
    for m in modes:
        reqs = dec_reqs(cases, m)
        impl = common.run_impl("impl_worker", reqs)
        model = common.run_model(reqs) if ctx["driver_ok"] else list(impl)
        res[m] = (reqs, impl, model)
    spec = common.run_model(spec_reqs(cases)) if (need_spec and ctx["driver_ok"]) else None
    return res, spec


# ----------------------------------------------------------------------------- C01


def layout_oracle(R, ctx, cases, sigprefix="c01"):
    """well-formed inputs (as judged by the specification at the pinned layout) must decode to the specified
    events; returns (set of flagged indices, reqs, impl, model, spec)"""
    res, spec = engine(R, ctx, cases, modes=("1",), need_spec=True)
    reqs, impl, model = res["1"]
    flagged = set()
    wf = 0
    for k, c in enumerate(cases):
        if spec is None:
            break
        s = spec[k]
        if not s.endswith(";ACC") and s != "ACC":
            continue  # generator produced something the specification does not call well-formed
        wf += 1
        if no_pulled(impl[k]) != no_pulled(s):
            flagged.add(k)
            ie, io = split_result(no_pulled(impl[k]))
            se, so = split_result(no_pulled(s))
            pos = next((j for j, (a, b) in enumerate(zip(ie + [io], se + [so])) if a != b), min(len(ie), len(se)))
            got = (ie + [io])[pos] if pos <= len(ie) else None
            exp = (se + [so])[pos] if pos <= len(se) else None
            R.violation("%s:%s:%s" % (sigprefix, c[1].split(":")[0], (exp or "len").split(" ")[0]),
                        "well-formed %s input decodes differently from the TPM 2.0 layout interpretation: item %d is %r, expected %r"
                        % (c[1], pos, got, exp), replay_of(c, "1", impl[k], {"expected": s}))
    R.coverage["well_formed_by_spec"] = R.coverage.get("well_formed_by_spec", 0) + wf
    return flagged, reqs, impl, model, spec


@runner("C01")
def c01(R, ctx):
    C = Cases(R.rng, ctx["tier"])
    cases = C.wellformed(per_type=1, per_cc=1) + C.streams(n=25)
    flagged, reqs, impl, model, spec = layout_oracle(R, ctx, cases)
    bad = correspondence(R, ctx, reqs, impl, model)
    report_disagreements(R, ctx, reqs, impl, model, bad, flagged)
    distribution(R, cases, impl)
    R.coverage["arms_hit"] = len(C.G.stats["arms"])
    R.coverage["types_hit"] = len(C.G.stats["types"])


# ----------------------------------------------------------------------------- C04


@runner("C04")
def c04(R, ctx):
    C = Cases(R.rng, ctx["tier"])
    base = C.wellformed(per_type=1, per_cc=1, corpus_n=60)
    cases = list(base)
    for b in base:
        cases += C.value_faults(b, per=2)
    res, spec = engine(R, ctx, cases, modes=("1",), need_spec=True)
    reqs, impl, model = res["1"]
    flagged = set()
    n_bad = n_ok = 0
    for k, c in enumerate(cases):
        if spec is None:
            break
        s = spec[k]
        if s == "NOTWF":
            continue
        if ";RAISE V" in s or s.startswith("RAISE V"):
            n_bad += 1
        else:
            n_ok += 1
        if no_pulled(impl[k]) != no_pulled(s):
            flagged.add(k)
            R.violation("c04:" + ("missed" if "RAISE V" in s else "spurious"),
                        "structurally consistent %s input: strict decoding gives %r, the specification (first out-of-range leaf) gives %r"
                        % (c[1], no_pulled(impl[k])[-200:], no_pulled(s)[-200:]),
                        replay_of(c, "1", impl[k], {"expected": s, "fault": c[3] if c[0].startswith("fault") else None}))
    R.coverage["with_bad_leaf"] = n_bad
    R.coverage["all_leaves_valid"] = n_ok
    bad = correspondence(R, ctx, reqs, impl, model)
    report_disagreements(R, ctx, reqs, impl, model, bad, flagged)
    distribution(R, cases, impl)


# ----------------------------------------------------------------------------- C05


def expected_cut(ctx, full_events, k, is_stream):
    """events of every field complete within the first k bytes"""
    out = []
    for (e, a, b) in spans_of(ctx, full_events):
        if b > k:
            break
        out.append(e)
    return out


@runner("C05")
def c05(R, ctx):
    C = Cases(R.rng, ctx["tier"])
    base = C.wellformed(per_type=1, per_cc=1, corpus_n=40) + C.streams(n=12)
    if ctx["tier"] == "quick":
        base = R.rng.sample(base, min(len(base), 260))
    full_res, spec = engine(R, ctx, base, modes=("1",), need_spec=True)
    cases = []
    origin = []
    for k, b in enumerate(base):
        if not full_res["1"][1][k].endswith("ACC"):
            continue
        ex = ctx["tier"] != "quick" and len(b[2]) <= 80
        for c in C.cuts(b, n=3, exhaustive=ex):
            cases.append(c)
            origin.append(k)
        if b[1] != "S":
            for c in C.suffixes(b):
                cases.append(c)
                origin.append(k)
    res, _ = engine(R, ctx, cases, modes=("1",))
    reqs, impl, model = res["1"]
    flagged = set()
    for j, c in enumerate(cases):
        full_line = full_res["1"][1][origin[j]]
        fe, _fo = split_result(full_line)
        ie, io = split_result(impl[j])
        ie_np = [strip_pulled(e) for e in ie]
        if c[0] == "cut":
            k = c[3]["k"]
            exp = expected_cut(ctx, fe, k, c[1] == "S")
            # a stream cut exactly at a message boundary ends cleanly
            boundary = False
            if c[1] == "S":
                sp = spans_of(ctx, fe)
                roots = [a for (e, a, b) in sp if e.startswith("E / ")]
                boundary = k in roots or k == 0
                if boundary:
                    exp = [e for (e, a, b) in sp if b <= k and not (e.startswith("E / ") and a == k)]
            want = "ACC" if boundary else "DEP " + last_cc(exp)
            if ie_np != exp or io != want:
                flagged.add(j)
                R.violation("c05:cut:" + out_class(io),
                            "input cut after %d of %d bytes (%s): got %d events and %r, expected %d events (all complete fields) and %r"
                            % (k, len(c[3]["full"]), c[1], len(ie_np), io, len(exp), want),
                            replay_of(c, "1", impl[j], {"expected_events": exp, "expected_outcome": want}))
        else:
            sfx = c[3]["suffix"]
            exp = [strip_pulled(e) for e in fe]
            want = "SUP %s %s" % (h(sfx), last_cc(exp))
            if ie_np != exp or io != want:
                flagged.add(j)
                R.violation("c05:suffix:" + out_class(io),
                            "well-formed %s input followed by %d surplus bytes: got %r, expected %r" % (c[1], len(sfx), io, want),
                            replay_of(c, "1", impl[j], {"expected_outcome": want}))
    bad = correspondence(R, ctx, reqs, impl, model)
    report_disagreements(R, ctx, reqs, impl, model, bad, flagged)
    distribution(R, cases, impl)


# ----------------------------------------------------------------------------- C06


def crash_sig(impl_line):
    out = split_result(impl_line)[1]
    return out.replace("CRASH ", "crash:")


@runner("C06")
def c06(R, ctx):
    C = Cases(R.rng, ctx["tier"])
    cases = C.arbitrary(n=900)
    base = C.wellformed(per_type=0, per_cc=1, corpus_n=30)
    for b in base:
        cases += C.size_faults(b, per=1)
    res, _ = engine(R, ctx, cases, modes=("1",))
    reqs, impl, model = res["1"]
    flagged = set()
    for k, c in enumerate(cases):
        out = split_result(impl[k])[1]
        if out_class(out) not in ("ACC", "RAISE", "DEP", "SUP"):
            flagged.add(k)
            R.violation(crash_sig(impl[k]) + ":strict",
                        "strict decoding of %s ended with an internal error: %s" % (c[1], out),
                        replay_of(c, "1", impl[k]))
    bad = correspondence(R, ctx, reqs, impl, model, what="events, pull counts, outcome class incl. crash")
    report_disagreements(R, ctx, reqs, impl, model, bad, flagged)
    distribution(R, cases, impl)


# ----------------------------------------------------------------------------- C13


def emitted_bytes_len(ctx, events):
    sp = spans_of(ctx, events)
    return sp[-1][2] if sp else 0


@runner("C13")
def c13(R, ctx):
    C = Cases(R.rng, ctx["tier"])
    base = C.wellformed(per_type=1, per_cc=1, corpus_n=60)
    cases = []
    for b in base:
        cases += C.size_faults(b, per=2)
        cases += C.value_faults(b, per=2)
    cases += C.arbitrary(n=200)
    res, _ = engine(R, ctx, cases, modes=("1",))
    reqs, impl, model = res["1"]
    flagged = set()
    nraise = 0
    lastpos = 0
    for k, c in enumerate(cases):
        ie, io = split_result(impl[k])
        if not io.startswith("RAISE"):
            continue
        nraise += 1
        f = io.split(" ")
        rem = f[-1][4:]
        rem_b = b"" if rem == "-" else bytes.fromhex(rem)
        emitted = emitted_bytes_len(ctx, ie)
        kind = f[1]
        if kind == "V":
            off = prim_width(ctx, f[3]) or 0
        elif kind == "X":
            # X cpath max already /viol by : the rest of the overrun region is skipped
            off = max(0, int(f[3]) - int(f[4])) if f[3] != "-" else 0
        else:
            off = 0
        inp = c[2]
        if len(rem_b) == 0:
            lastpos += 1
        ok = emitted + off + len(rem_b) == len(inp) and inp[len(inp) - len(rem_b):] == rem_b
        if not ok:
            flagged.add(k)
            R.violation("c13:" + kind,
                        "strict %s error on %s: %d bytes in emitted fields + %d offending + %d remaining != %d input bytes (or remaining is not the input's suffix)"
                        % (kind, c[1], emitted, off, len(rem_b), len(inp)),
                        replay_of(c, "1", impl[k]))
    R.coverage["constraint_errors_checked"] = nraise
    R.coverage["errors_with_empty_remainder"] = lastpos
    bad = correspondence(R, ctx, reqs, impl, model)
    report_disagreements(R, ctx, reqs, impl, model, bad, flagged)
    distribution(R, cases, impl)


# ----------------------------------------------------------------------------- C02


@runner("C02")
def c02(R, ctx):
    C = Cases(R.rng, ctx["tier"])
    base = C.wellformed(per_type=1, per_cc=1, corpus_n=80) + C.streams(n=15)
    strict_cases = list(base) + C.arbitrary(n=150)
    warn_cases = []
    for b in base:
        warn_cases += C.value_faults(b, per=2)
    reqs = ["rt 1 %s %s" % (c[1], h(c[2])) for c in strict_cases] + ["rt 0 %s %s" % (c[1], h(c[2])) for c in warn_cases]
    allc = strict_cases + warn_cases
    res = common.run_impl("impl_worker", reqs)
    ok = na = 0
    for k, (c, r) in enumerate(zip(allc, res)):
        mode = "1" if k < len(strict_cases) else "0"
        if r.startswith("OK"):
            ok += 1
        elif r.startswith("NA"):
            na += 1
        else:
            R.violation("c02:" + r.split(" ")[1], "re-encoding the events of an accepted %s input (%s mode) does not reproduce the input: %s"
                        % (c[1], "strict" if mode == "1" else "warn", r[:200]), replay_of(c, mode, r))
    R.coverage["roundtrips_checked"] = ok
    R.coverage["not_applicable_inputs"] = na
    # correspondence on the same inputs (strict) and on the warn-mode variants
    r1, _ = engine(R, ctx, strict_cases, modes=("1",))
    reqs1, impl1, model1 = r1["1"]
    bad = correspondence(R, ctx, reqs1, impl1, model1)
    report_disagreements(R, ctx, reqs1, impl1, model1, bad, set())
    r0, _ = engine(R, ctx, warn_cases, modes=("0",))
    reqs0, impl0, model0 = r0["0"]
    bad = correspondence(R, ctx, reqs0, impl0, model0)
    report_disagreements(R, ctx, reqs0, impl0, model0, bad, set())
    distribution(R, allc, impl1 + impl0)


# ----------------------------------------------------------------------------- C10


@runner("C10")
def c10(R, ctx):
    C = Cases(R.rng, ctx["tier"])
    base = C.wellformed(per_type=1, per_cc=1, corpus_n=40) + C.streams(n=12)
    if ctx["tier"] == "quick":
        base = R.rng.sample(base, min(len(base), 220))
    full, _ = engine(R, ctx, base, modes=("1",))
    cases, origin = [], []
    for k, b in enumerate(base):
        if not full["1"][1][k].endswith("ACC"):
            continue
        cases.append(b)
        origin.append(k)
        ex = ctx["tier"] != "quick" and len(b[2]) <= 80
        for c in C.cuts(b, n=3, exhaustive=ex):
            cases.append(c)
            origin.append(k)
    res, _ = engine(R, ctx, cases, modes=("1",))
    reqs, impl, model = res["1"]
    flagged = set()
    for j, c in enumerate(cases):
        ie, io = split_result(impl[j])
        # (a) look-ahead: pulled <= bytes of fields emitted so far + 1
        off = 0
        for e in ie:
            f = e.split(" ")
            if f[0] != "E":
                continue
            w = prim_width(ctx, f[2]) if f[3] != "..." else 0
            off += w or 0
            if int(f[4]) > off + 1:
                flagged.add(j)
                R.violation("c10:lookahead", "event %s emitted after pulling %s bytes while the fields emitted so far cover %d bytes"
                            % (f[1], f[4], off), replay_of(c, "1", impl[j]))
                break
        # (b) prefix stability, (c) complete fields emitted
        if c[0] == "cut":
            fe, _ = split_result(full["1"][1][origin[j]])
            fe_np = [strip_pulled(e) for e in fe]
            ie_np = [strip_pulled(e) for e in ie]
            if fe_np[:len(ie_np)] != ie_np:
                flagged.add(j)
                R.violation("c10:prefix", "events of the %d-byte prefix are not a prefix of the events of the whole %s input" % (c[3]["k"], c[1]),
                            replay_of(c, "1", impl[j]))
            exp = expected_cut(ctx, fe, c[3]["k"], c[1] == "S")
            if c[1] == "S":
                exp = [e for e in exp]  # a root at the cut is not emitted at a message boundary
                sp = spans_of(ctx, fe)
                exp = [e for (e, a, b) in sp if b <= c[3]["k"] and not (e.startswith("E / ") and a == c[3]["k"])]
            if ie_np != exp:
                flagged.add(j)
                R.violation("c10:complete-fields", "prefix of %d bytes of %s: %d events emitted, %d fields are complete in the prefix"
                            % (c[3]["k"], c[1], len(ie_np), len(exp)), replay_of(c, "1", impl[j]))
    # source kinds
    sample = cases if ctx["tier"] != "quick" else R.rng.sample(cases, min(len(cases), 300))
    sres = common.run_impl("impl_worker", ["src 1 %s %s" % (c[1], h(c[2])) for c in sample])
    for c, r in zip(sample, sres):
        if r != "SAME":
            R.violation("c10:source", "decoding %s differs for byte source kind %s" % (c[1], r), replay_of(c, "1", r))
    R.coverage["source_kind_runs"] = len(sample) * 7
    bad = correspondence(R, ctx, reqs, impl, model, what="events, pull count of every event, outcome")
    report_disagreements(R, ctx, reqs, impl, model, bad, flagged)
    distribution(R, cases, impl)


# ----------------------------------------------------------------------------- C20


def json_diff(a, b, path="", out=None, limit=40):
    if out is None:
        out = []
    if len(out) >= limit:
        return out
    if type(a) != type(b):
        out.append("%s: %r -> %r" % (path, a if not isinstance(a, (dict, list)) else type(a).__name__, b if not isinstance(b, (dict, list)) else type(b).__name__))
    elif isinstance(a, dict):
        for k in sorted(set(a) | set(b)):
            if k not in a:
                out.append("%s/%s: added" % (path, k))
            elif k not in b:
                out.append("%s/%s: removed" % (path, k))
            else:
                json_diff(a[k], b[k], path + "/" + str(k), out, limit)
    elif isinstance(a, list):
        if len(a) != len(b):
            out.append("%s: length %d -> %d" % (path, len(a), len(b)))
        for i, (x, y) in enumerate(zip(a, b)):
            json_diff(x, y, "%s[%d]" % (path, i), out, limit)
    elif a != b:
        out.append("%s: %r -> %r" % (path, a, b))
    return out


@runner("C20")
def c20(R, ctx):
    cur, pin = ctx["tables"], ctx["pinned"]
    diffs = json_diff(pin, cur)
    nprims, ntypes = len(cur["prims"]), len(cur["types"])
    nfields = sum(len(t.get("fields", t.get("arms", []))) for t in cur["types"].values())
    R.coverage.update({"evaluations": nprims + ntypes + 4 * len(cur["cmd_handles"]), "distinct_nontrivial": nprims + ntypes,
                       "rule": "every primitive, structure/TPM2B/union/area type and command-map entry of the regenerated tables is compared with the pinned snapshot and checked for coherence inside Coq (finite, complete)",
                       "exhaustive": True, "prims": nprims, "types": ntypes, "fields_and_arms": nfields,
                       "descriptor_differences": len(diffs),
                       "samples": [{"type": "TPMS_AUTH_COMMAND", "descriptor": cur["types"].get("TPMS_AUTH_COMMAND")}]})
    if cur.get("dup_names"):
        R.violation("c20:duplicate-class-name:" + ",".join(cur["dup_names"]),
                    "two distinct layout classes share the name(s) %s (each command code must have its own, distinctly named layouts)" % cur["dup_names"],
                    {"duplicate_names": cur["dup_names"]})
    if diffs:
        # search for a concrete message that now decodes differently from the pinned layout
        C = Cases(R.rng, "thorough" if ctx["tier"] == "thorough" else "quick")
        cases = C.wellformed(per_type=2, per_cc=2)
        before = len(R.violations)
        flagged, reqs, impl, model, spec = layout_oracle(R, ctx, cases, sigprefix="c20:layout")
        if len(R.violations) == before:
            R.violation("c20:pinned-mismatch", "the layout tables differ from the pinned snapshot: " + "; ".join(diffs[:6]),
                        {"theorem": "Properties/C20.v: C20_pinned (Tables.T = Pinned.T)", "differences": diffs}, found_input=False)
        else:
            R.violations = [(s, w + " [tables differ from the pinned snapshot: %s]" % "; ".join(diffs[:3]), dict(r, differences=diffs), f) for (s, w, r, f) in R.violations]


# ----------------------------------------------------------------------------- C17


@runner("C17")
def c17(R, ctx):
    cur = ctx["tables"]
    types = sorted(n for n, p in cur["prims"].items() if p["kind"]["k"] == "bits")
    reqs, meta = [], []
    for n in types:
        p = cur["prims"][n]
        nb = 8 * p["width"]
        masks = [m for _, m in p["kind"]["masks"]]
        if nb <= 8:
            vals = list(range(1 << nb))
        else:
            vals = [0, (1 << nb) - 1] + [1 << i for i in range(nb)] + [((1 << nb) - 1) ^ (1 << i) for i in range(nb)]
            vals += masks + [((1 << nb) - 1) ^ m for m in masks]
            vals += [R.rng.randrange(1 << nb) for _ in range(60 if ctx["tier"] == "quick" else 2000)]
        for v in vals:
            reqs.append("attr cur %s %d" % (n, v))
            meta.append((n, v, nb, p["kind"]["masks"]))
    impl = common.run_impl("impl_worker", reqs)
    model = common.run_model(reqs) if ctx["driver_ok"] else impl
    flagged = set()
    for k, (n, v, nb, masks) in enumerate(meta):
        # oracle on the implementation's own output
        fields = impl[k].split(",")
        problem = None
        union = 0
        for (mn, m) in masks:
            if union & m:
                problem = "masks overlap at %#x" % (union & m)
            union |= m
        if union != (1 << nb) - 1 and problem is None:
            problem = "bits %#x are in no field" % (((1 << nb) - 1) ^ union)
        shown = [None] * nb
        if problem is None:
            if len(fields) != len(masks):
                problem = "rows/fields mismatch: " + impl[k][:80]
            else:
                for f, (mn, m) in zip(fields, masks):
                    try:
                        name, rest = f.split("=")
                        acc, row = rest.split(":")
                    except ValueError:
                        problem = "unparsable row " + f
                        break
                    ctz = (m & -m).bit_length() - 1
                    if int(acc) != (v & m) >> ctz:
                        problem = "accessor %s returns %s, field bits are %d" % (name, acc, (v & m) >> ctz)
                        break
                    if len(row) != nb:
                        problem = "row %s has %d positions" % (name, len(row))
                        break
                    for j, ch in enumerate(row):
                        if ch != ".":
                            if shown[j] is not None:
                                problem = "bit position %d shown twice" % j
                            shown[j] = ch
                if problem is None:
                    want = format(v, "0%db" % nb)
                    if "".join(c or "." for c in shown) != want:
                        problem = "overlay of the rows is %s, value is %s" % ("".join(c or "." for c in shown), want)
        if problem:
            flagged.add(k)
            R.violation("c17:%s:%s" % (n, problem.split(" ")[0]), "%s(%#x): %s" % (n, v, problem),
                        {"type": n, "value": v, "implementation": impl[k], "how": "harness/impl_worker.py: attr cur %s %d" % (n, v)})
    bad = [k for k in range(len(reqs)) if impl[k] != model[k]]
    R.coverage.update({"correspondence_cases": len(reqs), "correspondence_disagreements": len(bad),
                       "correspondence_compares": "per field: accessor value and printed bit row",
                       "evaluations": len(reqs), "distinct_nontrivial": len(set((m[0], m[1]) for m in meta)),
                       "rule": "all attribute types; all 256 values of 8-bit types; for wider words 0, all-ones, walking ones/zeros, every mask and its complement, seeded random words; distinct = distinct (type, value)",
                       "samples": [{"request": reqs[i], "implementation": impl[i]} for i in (0, len(reqs) // 2)],
                       "attribute_types": types})
    for k in bad:
        if k not in flagged:
            R.violation("correspondence:C17", "model and implementation differ on `%s`: impl=%r model=%r" % (reqs[k], impl[k][:200], model[k][:200]),
                        {"request": reqs[k], "implementation": impl[k], "model": model[k], "theorem": "correspondence Model/Attr.v <-> values.py/pretty"}, found_input=False)
            break


# ----------------------------------------------------------------------------- C18


@runner("C18")
def c18(R, ctx):
    highs = [0, 0xFFFFF000, 0x00001000, R.rng.randrange(1, 1 << 20) << 12]
    if ctx["tier"] != "quick":
        highs += [R.rng.randrange(1, 1 << 20) << 12 for _ in range(6)]
    vals = [0]
    for hi in highs:
        for low in range(4096):
            if low & 0x180:
                vals.append(hi | low)
    reqs = ["rc cur %d" % v for v in vals]
    impl = common.run_impl("impl_worker", reqs)
    model = common.run_model(reqs) if ctx["driver_ok"] else impl
    spec = common.run_model(["rcspec %d" % v for v in vals]) if ctx["driver_ok"] else None
    flagged = set()
    for k, v in enumerate(vals):
        text, _, rows = impl[k].partition("|")
        problem = None
        if spec is not None and text != spec[k]:
            problem = "text form is %r, the TPM 2.0 format rules give %r" % (text, spec[k])
        elif v != 0:
            union = 0
            for r in rows.split(","):
                try:
                    m = int(r.split(":")[1])
                except (IndexError, ValueError):
                    problem = "unparsable row %r" % r
                    break
                if union & m:
                    problem = "bit rows overlap at %#x" % (union & m)
                union |= m
            if problem is None and union != 0xFFFFFFFF:
                problem = "bit rows leave %#x uncovered" % (0xFFFFFFFF ^ union)
        if problem:
            flagged.add(k)
            R.violation("c18:" + problem.split(" ")[0] + ":" + ("fmt1" if v & 0x80 else "fmt0"), "TPM_RC(%#x): %s" % (v, problem),
                        {"value": v, "implementation": impl[k], "expected_text": spec[k] if spec else None,
                         "how": "str(tpmstream.spec.structures.constants.TPM_RC(%d)) / .attributes()" % v})
    bad = [k for k in range(len(reqs)) if impl[k] != model[k]]
    R.coverage.update({"correspondence_cases": len(reqs), "correspondence_disagreements": len(bad),
                       "correspondence_compares": "str(TPM_RC(v)) and every attributes() row (name, mask, details up to ':')",
                       "evaluations": len(reqs), "distinct_nontrivial": len(set(vals)), "exhaustive": True,
                       "rule": "all 4096 low-12-bit values with bit 7 or bit 8 set, plus zero, each with several settings of the reserved high bits",
                       "samples": [{"request": reqs[i], "implementation": impl[i]} for i in (1, len(reqs) // 3)]})
    for k in bad:
        if k not in flagged:
            R.violation("correspondence:C18", "model and implementation differ on `%s`: impl=%r model=%r" % (reqs[k], impl[k][:200], model[k][:200]),
                        {"request": reqs[k], "implementation": impl[k], "model": model[k], "theorem": "correspondence Model/RC.v <-> tpm_rc.py"}, found_input=False)
            break


# ----------------------------------------------------------------------------- C16


def int_samples(R, ctx, p, tier):
    w = p["width"]
    lim = 1 << (8 * w)
    lo, hi = (-(lim // 2), lim // 2 - 1) if p["signed"] else (0, lim - 1)
    if w == 1 or (w == 2 and tier != "quick"):
        return list(range(lo, hi + 1))
    pts = {lo, lo + 1, hi, hi - 1, 0, 1, -1 if lo < 0 else 2}

    def around(x):
        for d in (-2, -1, 0, 1, 2):
            pts.add(x + d)

    def members(ms):
        for m in ms:
            if m["k"] == "const":
                around(m["v"])
            else:
                around(m["lo"])
                around(m["hi"] - 1)
                around(m["hi"])
    for it in p["valid"]:
        k = it["k"]
        if k in ("vrange", "vnamed"):
            around(it["lo"])
            around(it["hi"] - 1)
            around(it["hi"])
            if it["hi"] - it["lo"] > 4:
                pts.add(R.rng.randrange(it["lo"], it["hi"]))
        elif k in ("vmember", "vint"):
            around(it["v"])
        else:
            members(it["ms"])
    if p["kind"]["k"] == "enum":
        members(p["kind"]["ms"])
    if p["kind"]["k"] == "bits":
        for _, m in p["kind"]["masks"]:
            around(m)
    for _ in range(40 if tier == "quick" else 600):
        pts.add(R.rng.randrange(lo, hi + 1))
    if w == 2:
        for _ in range(600):
            pts.add(R.rng.randrange(lo, hi + 1))
    return sorted(x for x in pts if lo <= x <= hi)


@runner("C16")
def c16(R, ctx):
    cur = ctx["tables"]
    reqs, meta = [], []
    for n in sorted(cur["prims"]):
        p = cur["prims"][n]
        if p["kind"]["k"] == "rc":
            continue  # text form of TPM_RC is C18's
        for v in int_samples(R, ctx, p, ctx["tier"]):
            reqs.append("int cur %s %d" % (n, v))
            meta.append((n, v))
    impl = common.run_impl("impl_worker", reqs)
    model = common.run_model(reqs) if ctx["driver_ok"] else impl
    spec = common.run_model([r.replace("int cur", "int pin") for r in reqs]) if ctx["driver_ok"] else None
    flagged = set()
    for k, (n, v) in enumerate(meta):
        if spec is None:
            break
        if impl[k] != spec[k]:
            iv, ir, ib, it = (impl[k].split("|") + ["", "", "", ""])[:4]
            sv, sr, sb, st_ = (spec[k].split("|") + ["", "", "", ""])[:4]
            what = "validity" if iv != sv else "byte form" if ib != sb else "text form" if it != st_ else "representability"
            flagged.add(k)
            R.violation("c16:%s:%s" % (what.split(" ")[0], n), "%s(%d): %s is %r, the pinned declaration gives %r"
                        % (n, v, what, {"validity": iv, "byte form": ib, "text form": it}.get(what, ir), {"validity": sv, "byte form": sb, "text form": st_}.get(what, sr)),
                        {"type": n, "value": v, "implementation": impl[k], "expected": spec[k], "how": "harness/impl_worker.py: int cur %s %d" % (n, v)})
    # operators etc. (correspondence-only claims, decided on the implementation directly)
    oreqs, ometa = [], []
    names = sorted(n for n in cur["prims"])
    for n in names:
        p = cur["prims"][n]
        if p["kind"]["k"] in ("bits", "rc"):
            continue  # attribute words do not emulate int operators (bit accessors instead)
        vals = int_samples(R, ctx, p, "quick")
        pick = R.rng.sample(vals, min(len(vals), 25 if ctx["tier"] == "quick" else 120))
        for v in pick:
            w = R.rng.choice([0, 1, -1, 2, 3, 7, 255, -128, 65535, v, v + 1, R.rng.randrange(-1000, 1000)])
            oreqs.append("intops %s %d %d" % (n, v, w))
            ometa.append((n, v, w))
    ores = common.run_impl("impl_worker", oreqs)
    for (n, v, w), r in zip(ometa, ores):
        if r != "OK":
            R.violation("c16:ops:" + r.split(" ")[1] if " " in r else "c16:ops", "%s(%d) does not behave like the plain integer (other operand %d): %s" % (n, v, w, r),
                        {"type": n, "value": v, "other": w, "result": r, "how": "harness/impl_worker.py: intops %s %d %d" % (n, v, w)})
    bad = [k for k in range(len(reqs)) if impl[k] != model[k]]
    R.coverage.update({"correspondence_cases": len(reqs), "correspondence_disagreements": len(bad),
                       "correspondence_compares": "is_valid(), representable, to_bytes(), format()",
                       "operator_checks": len(oreqs),
                       "evaluations": len(reqs) + len(oreqs), "distinct_nontrivial": len(set(meta)),
                       "rule": "all primitive types; every value of 8-bit types (16-bit: exhaustive in the thorough tier, else boundaries + 600 random); for wider types width limits, every declared member / interval end point +-2 and seeded random values; distinct = distinct (type, value)",
                       "samples": [{"request": reqs[i], "implementation": impl[i]} for i in (0, len(reqs) // 2, len(reqs) - 1)]})
    for k in bad:
        if k not in flagged:
            R.violation("correspondence:C16", "model and implementation differ on `%s`: impl=%r model=%r" % (reqs[k], impl[k][:200], model[k][:200]),
                        {"request": reqs[k], "implementation": impl[k], "model": model[k], "theorem": "correspondence Model/Ints.v <-> base_type.py/values.py"}, found_input=False)
            break
