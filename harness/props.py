"""Per-property correspondence + oracle runs.  Each runner gets the Run (reporting) and ctx."""
import json
import re
import os
from collections import Counter

import common
import gen
from cases import Cases

LEVEL = {}
ASSUME = {}
RUNNERS = {}


def runner(pid, level="proof", assume=None):
    def deco(f):
        RUNNERS[pid] = f
        LEVEL[pid] = level
        ASSUME[pid] = assume or []
        return f

    return deco


# ----------------------------------------------------------------------------- helpers


def split_result(line):
    """'E ..;E ..;W ..;OUT' -> (events list, outcome string)"""
    parts = line.split(";")
    return parts[:-1], parts[-1]


def strip_pulled(ev):
    if ev.startswith("E "):
        return ev.rsplit(" ", 1)[0]
    return ev


def norm_crash(line):
    evs, out = split_result(line)
    if out.startswith("CRASH"):
        out = "CRASH"
    return ";".join(evs + [out])


def no_pulled(line):
    evs, out = split_result(line)
    return ";".join([strip_pulled(e) for e in evs] + [out])


def out_class(out):
    return out.split(" ")[0]


def err_class(out):
    # RAISE V|X|A|U ...
    p = out.split(" ")
    return p[0] + (":" + p[1] if p[0] == "RAISE" and len(p) > 1 else "")


def h(b):
    return bytes(b).hex() or "-"


def dec_reqs(cases, mode, tb="cur"):
    return ["dec %s %s %s %s" % (tb, mode, root, h(b)) for (_l, root, b, _i) in cases]


def spec_reqs(cases):
    return ["spec pin %s %s" % (root, h(b)) for (_l, root, b, _i) in cases]


def correspondence(R, ctx, reqs, impl, model, what="events, pull counts, outcome"):
    """model vs implementation, line by line. Returns list of indices that disagree."""
    bad = [k for k in range(len(reqs)) if norm_crash(impl[k]) != norm_crash(model[k])]
    R.coverage["correspondence_cases"] = R.coverage.get("correspondence_cases", 0) + len(reqs)
    R.coverage["correspondence_disagreements"] = R.coverage.get("correspondence_disagreements", 0) + len(bad)
    R.coverage["correspondence_compares"] = what
    return bad

def warn_correspondence(R, ctx, cases, what):
    """the same inputs in warn mode: model vs implementation only (events, warnings, pull counts, outcome)"""
    sample = cases if ctx["tier"] != "quick" else R.rng.sample(cases, min(len(cases), 400))
    r0, _ = engine(R, ctx, sample, modes=("0",))
    reqs0, impl0, model0 = r0["0"]
    bad0 = [k for k in range(len(reqs0)) if norm_crash(impl0[k]) != norm_crash(model0[k])]
    R.coverage.update({"warn_mode_correspondence_cases": len(reqs0), "warn_mode_correspondence_disagreements": len(bad0)})
    for k in bad0:
        R.violation("correspondence:warn", "model and implementation differ in warn mode on `%s` (%s)" % (reqs0[k][:160], what),
                    {"request": reqs0[k], "implementation": impl0[k][:3000], "model": model0[k][:3000], "theorem": "correspondence Model/* (warn mode)"}, found_input=False)
        break


def report_disagreements(R, ctx, reqs, impl, model, bad, oracle_flagged):
    """a disagreement where the oracle saw nothing wrong: the model no longer describes the code"""
    for k in bad:
        if k in oracle_flagged:
            continue
        ie, io = split_result(impl[k])
        me, mo = split_result(model[k])
        pos = next((j for j, (a, b) in enumerate(zip(ie + [io], me + [mo])) if a != b), min(len(ie), len(me)))
        R.violation("correspondence:" + R.pid,
                    "model and implementation differ on `%s` (first difference at item %d: impl=%r model=%r); the property's oracle did not flag this input"
                    % (reqs[k][:300], pos, (ie + [io])[pos] if pos <= len(ie) else None, (me + [mo])[pos] if pos <= len(me) else None),
                    {"request": reqs[k], "implementation": impl[k], "model": model[k],
                     "theorem": "correspondence model<->implementation (%s)" % R.pid}, found_input=False)
        break


def distribution(R, cases, impl):
    labels = Counter(c[0] for c in cases)
    outs = Counter(err_class(split_result(x)[1]) for x in impl)
    lens = Counter(min(len(c[2]) // 16 * 16, 512) for c in cases)
    roots = Counter(c[1].split(":")[0] for c in cases)
    d = R.coverage.setdefault("distribution", {})
    d["labels"] = dict(labels)
    d["outcomes"] = dict(outs)
    d["length_buckets"] = {str(k): v for k, v in sorted(lens.items())}
    d["roots"] = dict(roots)
    distinct = set((c[0], c[1], err_class(split_result(x)[1]), min(len(c[2]) // 8, 64)) for c, x in zip(cases, impl))
    R.coverage["evaluations"] = R.coverage.get("evaluations", 0) + len(cases)
    R.coverage["distinct_nontrivial"] = R.coverage.get("distinct_nontrivial", 0) + len(distinct)
    R.coverage["rule"] = ("cases are generated from the pinned layout tables (table-directed well-formed values, fault injection, cuts, "
                          "mutations of corpus packets); a case is counted once per distinct (stream label, root, outcome class, length/8 bucket) tuple")
    R.coverage.setdefault("samples", [])
    for c, x in list(zip(cases, impl))[:3]:
        R.coverage["samples"].append({"label": c[0], "root": c[1], "input": h(c[2])[:120], "impl": x[-160:]})


def prim_width(ctx, tname):
    p = ctx["pinned"]["prims"].get(tname)
    return p["width"] if p else None


def spans_of(ctx, events):
    """events (strings 'E /path type value [pulled]') -> list of (event_without_pulled, off_before, off_after)"""
    out = []
    off = 0
    for e in events:
        if not e.startswith("E "):
            out.append((e, off, off))
            continue
        f = e.split(" ")
        w = prim_width(ctx, f[2]) if f[3] != "..." else 0
        if w is None:
            w = 0
        out.append((" ".join(f[:4]), off, off + w))
        off += w
    return out


def boundary_cuts(R, ctx, case, full_events, n=4):
    """cuts at the offsets where a structural event sits (container headers) and at field ends"""
    sp = spans_of(ctx, full_events)
    L = len(case[2])
    node_offs = sorted(set(a for (e, a, b) in sp if a == b and 0 < a < L))
    end_offs = sorted(set(b for (e, a, b) in sp if b > a and 0 < b < L))
    picks = set(R.rng.sample(node_offs, min(len(node_offs), n)) + R.rng.sample(end_offs, min(len(end_offs), 2)))
    return [("cut", case[1], case[2][:k], {"k": k, "full": case[2]}) for k in sorted(picks)]


def last_cc(events):
    cc = "-"
    for e in events:
        f = e.split(" ")
        if f[0] == "E" and f[1] == "/.commandCode":
            cc = f[3]
    return cc


def replay_of(case, mode, impl_line, extra=None):
    d = {"root": case[1], "mode": "strict" if mode == "1" else "warn", "input_hex": h(case[2]), "label": case[0],
         "implementation": impl_line,
         "how": "PYTHONPATH=/repo/src /venv/bin/python /verif/harness/impl_worker.py <<< 'dec cur %s %s %s'" % (mode, case[1], h(case[2]))}
    if extra:
        d.update(extra)
    return d


def engine(R, ctx, cases, modes=("1",), need_spec=False):
    """runs implementation + model (+ spec) on the cases; returns dict mode -> (reqs, impl, model), spec list"""
    res = {}
    for m in modes:
        reqs = dec_reqs(cases, m)
        impl = common.run_impl("impl_worker", reqs)
        model = common.run_model(reqs) if ctx["driver_ok"] else list(impl)
        res[m] = (reqs, impl, model)
    spec = common.run_model(spec_reqs(cases)) if (need_spec and ctx["driver_ok"]) else None
    return res, spec


# ----------------------------------------------------------------------------- C01


def layout_oracle(R, ctx, cases, sigprefix="c01"):
    """well-formed inputs (as judged by the specification at the pinned layout) must decode to the specified
    events; returns (set of flagged indices, reqs, impl, model, spec)"""
    res, spec = engine(R, ctx, cases, modes=("1",), need_spec=True)
    reqs, impl, model = res["1"]
    flagged = set()
    wf = 0
    for k, c in enumerate(cases):
        if spec is None:
            break
        s = spec[k]
        if not s.endswith(";ACC") and s != "ACC":
            continue  # generator produced something the specification does not call well-formed
        wf += 1
        if no_pulled(impl[k]) != no_pulled(s):
            flagged.add(k)
            ie, io = split_result(no_pulled(impl[k]))
            se, so = split_result(no_pulled(s))
            pos = next((j for j, (a, b) in enumerate(zip(ie + [io], se + [so])) if a != b), min(len(ie), len(se)))
            got = (ie + [io])[pos] if pos <= len(ie) else None
            exp = (se + [so])[pos] if pos <= len(se) else None
            extra = {"expected": s}
            what = "well-formed %s input decodes differently from the TPM 2.0 layout interpretation: item %d is %r, expected %r" % (c[1], pos, got, exp)
            if len(flagged) <= 3 and len(reqs) > 64:
                # does the input fail on its own, or only after what the same process decoded before it?
                alone = common.run_impl("impl_worker", [reqs[k]])[0]
                if no_pulled(alone) == no_pulled(s):
                    n_ = common.NPROC
                    chain = [reqs[j] for j in range(k % n_, k + 1, n_)]
                    m_ = 2
                    hist_ = chain
                    while m_ <= len(chain):
                        r_ = common.run_impl("impl_worker", chain[-m_:])
                        if no_pulled(r_[-1]) == no_pulled(impl[k]):
                            hist_ = chain[-m_:]
                            break
                        m_ = m_ * 2 if m_ * 2 <= len(chain) or m_ == len(chain) else len(chain)
                    # drop requests from the front that are not needed
                    while len(hist_) > 2:
                        r_ = common.run_impl("impl_worker", hist_[1:])
                        if no_pulled(r_[-1]) == no_pulled(impl[k]):
                            hist_ = hist_[1:]
                        else:
                            break
                    extra["decoded_alone"] = alone
                    extra["decoded_before_in_the_same_process"] = hist_[:-1]
                    extra["how_with_history"] = "PYTHONPATH=/repo/src /venv/bin/python /verif/harness/impl_worker.py  with stdin lines: " + " | ".join(hist_)
                    what += " - only after %d other decode(s) in the same process (on its own it decodes as specified)" % (len(hist_) - 1)
            R.violation("%s:%s:%s" % (sigprefix, c[1].split(":")[0], (exp or "len").split(" ")[0]), what, replay_of(c, "1", impl[k], extra))
    R.coverage["well_formed_by_spec"] = R.coverage.get("well_formed_by_spec", 0) + wf
    return flagged, reqs, impl, model, spec


@runner("C01")
def c01(R, ctx):
    C = Cases(R.rng, ctx["tier"])
    cases = C.wellformed(per_type=1, per_cc=1) + C.streams(n=25)
    # in between: decodes that are abandoned inside a size-prefixed region (input cut there, or an out-of-range value
    # inside it). They are not well-formed and are not judged; the well-formed inputs decoded after them in the same
    # process must not notice them.
    sized = [c for c in cases if c[1].startswith("T:") and "TPM2B" in c[1] and len(c[2]) >= 4]
    abandoned = []
    for c in R.rng.sample(sized, min(len(sized), 40)):
        abandoned.append(("abandoned-cut", c[1], c[2][:R.rng.choice([3, 3, max(3, len(c[2]) // 2), len(c[2]) - 1])], {"full": c[2]}))
        abandoned += [("abandoned-value",) + tuple(v[1:]) for v in C.value_faults(c, per=1)]
    if abandoned:
        mixed = []
        for k, c in enumerate(cases):
            mixed.append(c)
            if k % 4 == 3:
                mixed.append(abandoned[(k // 4) % len(abandoned)])
        cases = mixed
    R.coverage["abandoned_decodes_in_between"] = sum(1 for c in cases if c[0].startswith("abandoned"))
    flagged, reqs, impl, model, spec = layout_oracle(R, ctx, cases)
    bad = correspondence(R, ctx, reqs, impl, model)
    report_disagreements(R, ctx, reqs, impl, model, bad, flagged)
    distribution(R, cases, impl)
    R.coverage["arms_hit"] = len(C.G.stats["arms"])
    R.coverage["types_hit"] = len(C.G.stats["types"])


# ----------------------------------------------------------------------------- C04


@runner("C04")
def c04(R, ctx):
    C = Cases(R.rng, ctx["tier"])
    base = C.wellformed(per_type=1, per_cc=1, corpus_n=60)
    cases = list(base)
    for b in base:
        cases += C.value_faults(b, per=2)
    # successful responses decoded with a command code that names no layout (reserved gap, vendor-specific, far
    # outside, none at all): the first field in wire order whose layout is unknowable is `handles`
    rsps = [b for b in base if b[1].startswith("R:") and b[3].get("rc") == 0]
    for b in R.rng.sample(rsps, min(len(rsps), 24 if ctx["tier"] == "quick" else 120)):
        x = R.rng.choice(["-", "-", 0x15A, 0x123, 0x15F, 0x166, 0x175, 0xFFFFFFFF, 0x20000000, 0])
        cases.append(("response-unknown-cc", "R:%s:0" % x, b[2], {"cc": x}))
    res, spec = engine(R, ctx, cases, modes=("1",), need_spec=True)
    reqs, impl, model = res["1"]
    flagged = set()
    n_bad = n_ok = n_nocc = 0
    for k, c in enumerate(cases):
        if spec is None:
            break
        s = spec[k]
        if c[0] == "response-unknown-cc":
            ie, io = split_result(no_pulled(impl[k]))
            hdr_ok = len(ie) == 4 and [e.split(" ")[1] for e in ie] == ["/", "/.tag", "/.responseSize", "/.responseCode"]
            if hdr_ok:
                n_nocc += 1
                f = io.split(" ")
                if f[:4] != ["RAISE", "V", "/.handles", "TPM_CC"]:
                    flagged.add(k)
                    R.violation("c04:unknown-cc-path", "successful response decoded with command code %s: strict decoding ends with %r; the offending field is "
                                "`handles` (the first field whose layout depends on the command code), its declared type TPM_CC" % (c[3]["cc"], io[:120]),
                                replay_of(c, "1", impl[k]))
            continue
        if s == "NOTWF":
            continue
        if ";RAISE V" in s or s.startswith("RAISE V"):
            n_bad += 1
        else:
            n_ok += 1
        if no_pulled(impl[k]) != no_pulled(s):
            flagged.add(k)
            R.violation("c04:" + ("missed" if "RAISE V" in s else "spurious"),
                        "structurally consistent %s input: strict decoding gives %r, the specification (first out-of-range leaf) gives %r"
                        % (c[1], no_pulled(impl[k])[-200:], no_pulled(s)[-200:]),
                        replay_of(c, "1", impl[k], {"expected": s, "fault": c[3] if c[0].startswith("fault") else None}))
    R.coverage["with_bad_leaf"] = n_bad
    R.coverage["all_leaves_valid"] = n_ok
    R.coverage["responses_with_unknown_command_code"] = n_nocc
    bad = correspondence(R, ctx, reqs, impl, model)
    report_disagreements(R, ctx, reqs, impl, model, bad, flagged)
    distribution(R, cases, impl)


# ----------------------------------------------------------------------------- C05


def expected_cut(ctx, full_events, k, is_stream):
    """events of every field complete within the first k bytes"""
    out = []
    for (e, a, b) in spans_of(ctx, full_events):
        if b > k:
            break
        out.append(e)
    return out


def c05_front_ends(R, ctx, C):
    """an input that ends inside a message, delivered through a container front-end (hex text, swtpm log, pcapng capture
    whose last packet is cut short): the same events and the same depleted error as for the carried bytes"""
    reqs, meta = [], []
    for s_ in C.streams(n=8 if ctx["tier"] == "quick" else 60, maxpairs=2):
        parts = s_[3]["parts"]
        last = parts[-1]
        if len(last) <= 11:
            continue
        k = R.rng.randrange(10, len(last))
        cutparts = parts[:-1] + [last[:k]]
        carried = b"".join(cutparts)
        mode = R.rng.choice(["1", "0"])
        for kind, arg in (("hex", h(render_hex(R.rng, carried))), ("swtpm", h(render_swtpm(R.rng, cutparts))),
                          ("pcap", ",".join(h(p_) for p_ in cutparts)), ("autopcap", ",".join(h(p_) for p_ in cutparts)),
                          ("pcapmix", ",".join(h(p_) for p_ in cutparts))):
            reqs.append("fevents %s %s S %s" % (kind, mode, arg))
            reqs.append("fevents binary %s S %s" % (mode, h(carried)))
            meta.append((kind, mode, cutparts))
        # the cut message on its own, as a command / response
        if len(parts) % 2 == 0 and len(parts) >= 2:
            cc = int.from_bytes(parts[-2][6:10], "big")
            root = "R:%d:0" % cc
            for kind in ("pcap", "hex"):
                arg = h(last[:k]) if kind == "pcap" else h(render_hex(R.rng, last[:k]))
                reqs.append("fevents %s %s %s %s" % (kind, mode, root, arg))
                reqs.append("fevents binary %s %s %s" % (mode, root, h(last[:k])))
                meta.append((kind + ":response", mode, [last[:k]]))
    res = common.run_impl("impl_worker", reqs)
    for k_, (kind, mode, cutparts) in enumerate(meta):
        a_, b_ = res[2 * k_], res[2 * k_ + 1]
        if a_ != b_:
            R.violation("c05:front-end:" + kind, "input ending inside a message, through the %s front-end (%s mode): %r, decoding the carried bytes directly: %r"
                        % (kind, "strict" if mode == "1" else "warn", a_[-160:], b_[-160:]),
                        {"front_end": kind, "strict": mode == "1", "messages_hex": [h(p_) for p_ in cutparts], "front_end_result": a_[-600:], "binary_result": b_[-600:],
                         "how": "harness/impl_worker.py: " + reqs[2 * k_][:100] + "..."})
    R.coverage["cut_inputs_through_front_ends"] = len(meta)


@runner("C05")
def c05(R, ctx):
    C = Cases(R.rng, ctx["tier"])
    base = C.wellformed(per_type=1, per_cc=1, corpus_n=40) + C.streams(n=12)
    if ctx["tier"] == "quick":
        base = R.rng.sample(base, min(len(base), 260))
    full_res, spec = engine(R, ctx, base, modes=("1",), need_spec=True)
    cases = []
    origin = []
    for k, b in enumerate(base):
        if not full_res["1"][1][k].endswith("ACC"):
            continue
        ex = ctx["tier"] != "quick" and len(b[2]) <= 80
        for c in C.cuts(b, n=3, exhaustive=ex) + boundary_cuts(R, ctx, b, split_result(full_res["1"][1][k])[0]):
            cases.append(c)
            origin.append(k)
        if b[1] != "S":
            for c in C.suffixes(b):
                cases.append(c)
                origin.append(k)
    res, _ = engine(R, ctx, cases, modes=("1",))
    reqs, impl, model = res["1"]
    warn_correspondence(R, ctx, cases, "cuts and surplus: in warn mode the length mismatch is the last warning")
    flagged = set()
    for j, c in enumerate(cases):
        full_line = full_res["1"][1][origin[j]]
        fe, _fo = split_result(full_line)
        ie, io = split_result(impl[j])
        ie_np = [strip_pulled(e) for e in ie]
        if c[0] == "cut":
            k = c[3]["k"]
            exp = expected_cut(ctx, fe, k, c[1] == "S")
            # a stream cut exactly at a message boundary ends cleanly
            boundary = False
            if c[1] == "S":
                sp = spans_of(ctx, fe)
                roots = [a for (e, a, b) in sp if e.startswith("E / ")]
                boundary = k in roots or k == 0
                if boundary:
                    exp = [e for (e, a, b) in sp if b <= k and not (e.startswith("E / ") and a == k)]
            want = "ACC" if boundary else "DEP " + last_cc(exp)
            if ie_np != exp or io != want:
                flagged.add(j)
                R.violation("c05:cut:" + out_class(io),
                            "input cut after %d of %d bytes (%s): got %d events and %r, expected %d events (all complete fields) and %r"
                            % (k, len(c[3]["full"]), c[1], len(ie_np), io, len(exp), want),
                            replay_of(c, "1", impl[j], {"expected_events": exp, "expected_outcome": want}))
        else:
            sfx = c[3]["suffix"]
            exp = [strip_pulled(e) for e in fe]
            want = "SUP %s %s" % (h(sfx), last_cc(exp))
            if ie_np != exp or io != want:
                flagged.add(j)
                R.violation("c05:suffix:" + out_class(io),
                            "well-formed %s input followed by %d surplus bytes: got %r, expected %r" % (c[1], len(sfx), io, want),
                            replay_of(c, "1", impl[j], {"expected_outcome": want}))
    bad = correspondence(R, ctx, reqs, impl, model)
    report_disagreements(R, ctx, reqs, impl, model, bad, flagged)
    distribution(R, cases, impl)
    c05_front_ends(R, ctx, C)


# ----------------------------------------------------------------------------- C06


def crash_sig(impl_line):
    out = split_result(impl_line)[1]
    return out.replace("CRASH ", "crash:")


@runner("C06")
def c06(R, ctx):
    C = Cases(R.rng, ctx["tier"])
    cases = C.arbitrary(n=900)
    base = C.wellformed(per_type=0, per_cc=1, corpus_n=30)
    for b in base:
        cases += C.size_faults(b, per=1)
    cases += [b for b in base if b[0] in ("wf-command-decrypt", "wf-response-encrypted", "wf-command-empty-area", "wf-response-empty-area")]
    res, _ = engine(R, ctx, cases, modes=("1",))
    reqs, impl, model = res["1"]
    flagged = set()
    for k, c in enumerate(cases):
        out = split_result(impl[k])[1]
        if out_class(out) not in ("ACC", "RAISE", "DEP", "SUP"):
            flagged.add(k)
            R.violation(crash_sig(impl[k]) + ":strict",
                        "strict decoding of %s ended with an internal error: %s" % (c[1], out),
                        replay_of(c, "1", impl[k]))
    bad = correspondence(R, ctx, reqs, impl, model, what="events, pull counts, outcome class incl. crash")
    report_disagreements(R, ctx, reqs, impl, model, bad, flagged)
    distribution(R, cases, impl)
    # the sweep over every decodable type and every command code that `tpmstream type` performs, on very short inputs
    import tempfile
    tmp = tempfile.mkdtemp(prefix="c06.", dir=common.WORK)
    try:
        blobs = [b"", b"\x01", bytes.fromhex("000b"), bytes.fromhex("40000001"), bytes.fromhex("0000000100"), bytes(R.rng.randrange(256) for _ in range(R.rng.randrange(1, 6)))]
        for k_, blob in enumerate(blobs):
            path = os.path.join(tmp, "b%d" % k_)
            open(path, "wb").write(blob)
            rc_, out_, err_ = run_cli(["type", "--in", "binary", path])
            if "Traceback" in err_ or rc_ not in (0, 1):
                R.violation("c06:type-sweep:" + (err_.strip().split("\n")[-1].split(":")[0] or "status")[:40],
                            "`tpmstream type` on a %d-byte input ends with an internal error: %s" % (len(blob), err_.strip().split("\n")[-1][:200]),
                            {"argv": ["type", "--in", "binary", "<file>"], "file_hex": h(blob), "stderr": err_[-800:], "status": rc_})
        R.coverage["type_sweeps_on_short_inputs"] = len(blobs)
    finally:
        import shutil
        shutil.rmtree(tmp, ignore_errors=True)


# ----------------------------------------------------------------------------- C13


def emitted_bytes_len(ctx, events):
    sp = spans_of(ctx, events)
    return sp[-1][2] if sp else 0


@runner("C13")
def c13(R, ctx):
    C = Cases(R.rng, ctx["tier"])
    base = C.wellformed(per_type=1, per_cc=1, corpus_n=60)
    cases = []
    for b in base:
        cases += C.size_faults(b, per=2)
        cases += C.value_faults(b, per=2)
    cases += C.arbitrary(n=200)
    res, _ = engine(R, ctx, cases, modes=("1",))
    reqs, impl, model = res["1"]
    raised = [c for c, r in zip(cases, impl) if ";RAISE " in r or r.startswith("RAISE ")]
    rsample = R.rng.sample(raised, min(len(raised), 120 if ctx["tier"] == "quick" else 1500))
    rres = common.run_impl("impl_worker", ["remsrc %s %s" % (c[1], h(c[2])) for c in rsample])
    for c, r in zip(rsample, rres):
        if r.startswith("DIFF"):
            R.violation("c13:source", "the remainder reported with the error depends on the kind of byte source: %s" % r[:200], replay_of(c, "1", r))
    R.coverage["remainder_source_kind_runs"] = len(rsample) * 5
    flagged = set()
    nraise = 0
    lastpos = 0
    for k, c in enumerate(cases):
        ie, io = split_result(impl[k])
        if not io.startswith("RAISE"):
            continue
        nraise += 1
        f = io.split(" ")
        rem = f[-1][4:]
        rem_b = b"" if rem == "-" else bytes.fromhex(rem)
        emitted = emitted_bytes_len(ctx, ie)
        kind = f[1]
        if kind == "V":
            off = prim_width(ctx, f[3]) or 0
        elif kind == "X":
            # X cpath max already /viol by : the rest of the overrun region is skipped
            off = max(0, int(f[3]) - int(f[4])) if f[3] != "-" else 0
        else:
            off = 0
        inp = c[2]
        if len(rem_b) == 0:
            lastpos += 1
        ok = emitted + off + len(rem_b) == len(inp) and inp[len(inp) - len(rem_b):] == rem_b
        if not ok:
            flagged.add(k)
            R.violation("c13:" + kind,
                        "strict %s error on %s: %d bytes in emitted fields + %d offending + %d remaining != %d input bytes (or remaining is not the input's suffix)"
                        % (kind, c[1], emitted, off, len(rem_b), len(inp)),
                        replay_of(c, "1", impl[k]))
    R.coverage["constraint_errors_checked"] = nraise
    R.coverage["errors_with_empty_remainder"] = lastpos
    bad = correspondence(R, ctx, reqs, impl, model)
    report_disagreements(R, ctx, reqs, impl, model, bad, flagged)
    distribution(R, cases, impl)


# ----------------------------------------------------------------------------- C02


@runner("C02")
def c02(R, ctx):
    C = Cases(R.rng, ctx["tier"])
    base = C.wellformed(per_type=1, per_cc=1, corpus_n=80) + C.streams(n=15)
    strict_cases = list(base) + C.arbitrary(n=150)
    # inputs whose size fields do not fit their contents (one field off by a little, or a region padded consistently):
    # whatever strict decoding accepts of them must re-encode to the input
    withsess = [b for b in base if (b[1] == "C" or b[1].startswith("R:")) and len(b[2]) >= 2 and b[2][:2] == b"\x80\x02"]
    for b in R.rng.sample(withsess, min(len(withsess), 60 if ctx["tier"] == "quick" else 400)):
        strict_cases += C.size_faults(b, per=2) + C.padded(b, per=2)
    for b in R.rng.sample(base, min(len(base), 60 if ctx["tier"] == "quick" else 400)):
        strict_cases += C.padded(b, per=1)
    warn_cases = []
    for b in base:
        warn_cases += C.value_faults(b, per=2)
    # command codes outside TPM_CC: vendor-specific (bit 29), reserved gaps, far outside - in a command's header and as
    # the code a response is decoded with; bodies longer than the header
    odd_ccs = [0x20000000, 0x20000001, 0x2000017B, 0x30000144, 0x0000015A, 0x00000123, 0xFFFFFFFF, 0x00000000]
    msgs = [b for b in base if b[1] == "C" or (b[1].startswith("R:") and b[1].split(":")[1] != "-")]
    for b in R.rng.sample(msgs, min(len(msgs), 40 if ctx["tier"] == "quick" else 200)):
        if len(b[2]) <= 10:
            continue
        x = R.rng.choice(odd_ccs)
        if b[1] == "C":
            warn_cases.append(("odd-command-code", "C", b[2][:6] + x.to_bytes(4, "big") + b[2][10:], {"cc": x}))
        else:
            warn_cases.append(("odd-command-code", "R:%d:%s" % (x, b[1].split(":")[2]), b[2], {"cc": x}))
    reqs = ["rt 1 %s %s" % (c[1], h(c[2])) for c in strict_cases] + ["rt 0 %s %s" % (c[1], h(c[2])) for c in warn_cases]
    allc = strict_cases + warn_cases
    res = common.run_impl("impl_worker", reqs)
    ok = na = 0
    for k, (c, r) in enumerate(zip(allc, res)):
        mode = "1" if k < len(strict_cases) else "0"
        if r.startswith("OK"):
            ok += 1
        elif r.startswith("NA"):
            na += 1
        else:
            R.violation("c02:" + r.split(" ")[1], "re-encoding the events of an accepted %s input (%s mode) does not reproduce the input: %s"
                        % (c[1], "strict" if mode == "1" else "warn", r[:200]), replay_of(c, mode, r))
    R.coverage["roundtrips_checked"] = ok
    R.coverage["not_applicable_inputs"] = na
    # correspondence on the same inputs (strict) and on the warn-mode variants
    r1, _ = engine(R, ctx, strict_cases, modes=("1",))
    reqs1, impl1, model1 = r1["1"]
    bad = correspondence(R, ctx, reqs1, impl1, model1)
    report_disagreements(R, ctx, reqs1, impl1, model1, bad, set())
    r0, _ = engine(R, ctx, warn_cases, modes=("0",))
    reqs0, impl0, model0 = r0["0"]
    bad = correspondence(R, ctx, reqs0, impl0, model0)
    report_disagreements(R, ctx, reqs0, impl0, model0, bad, set())
    distribution(R, allc, impl1 + impl0)


# ----------------------------------------------------------------------------- C10


@runner("C10")
def c10(R, ctx):
    C = Cases(R.rng, ctx["tier"])
    base = C.wellformed(per_type=1, per_cc=1, corpus_n=40) + C.streams(n=12)
    if ctx["tier"] == "quick":
        base = R.rng.sample(base, min(len(base), 220))
    full, _ = engine(R, ctx, base, modes=("1",))
    cases, origin = [], []
    for k, b in enumerate(base):
        if not full["1"][1][k].endswith("ACC"):
            continue
        cases.append(b)
        origin.append(k)
        ex = ctx["tier"] != "quick" and len(b[2]) <= 80
        for c in C.cuts(b, n=3, exhaustive=ex) + boundary_cuts(R, ctx, b, split_result(full["1"][1][k])[0]):
            cases.append(c)
            origin.append(k)
    res, _ = engine(R, ctx, cases, modes=("1",))
    reqs, impl, model = res["1"]
    warn_correspondence(R, ctx, cases, "prefixes: events, pull count of every event")
    flagged = set()
    for j, c in enumerate(cases):
        ie, io = split_result(impl[j])
        # (a) look-ahead: pulled <= bytes of fields emitted so far + 1
        off = 0
        for e in ie:
            f = e.split(" ")
            if f[0] != "E":
                continue
            w = prim_width(ctx, f[2]) if f[3] != "..." else 0
            off += w or 0
            if int(f[4]) > off + 1:
                flagged.add(j)
                R.violation("c10:lookahead", "event %s emitted after pulling %s bytes while the fields emitted so far cover %d bytes"
                            % (f[1], f[4], off), replay_of(c, "1", impl[j]))
                break
        # (b) prefix stability, (c) complete fields emitted
        if c[0] == "cut":
            fe, _ = split_result(full["1"][1][origin[j]])
            fe_np = [strip_pulled(e) for e in fe]
            ie_np = [strip_pulled(e) for e in ie]
            if fe_np[:len(ie_np)] != ie_np:
                flagged.add(j)
                R.violation("c10:prefix", "events of the %d-byte prefix are not a prefix of the events of the whole %s input" % (c[3]["k"], c[1]),
                            replay_of(c, "1", impl[j]))
            exp = expected_cut(ctx, fe, c[3]["k"], c[1] == "S")
            if c[1] == "S":
                exp = [e for e in exp]  # a root at the cut is not emitted at a message boundary
                sp = spans_of(ctx, fe)
                exp = [e for (e, a, b) in sp if b <= c[3]["k"] and not (e.startswith("E / ") and a == c[3]["k"])]
            if ie_np != exp:
                flagged.add(j)
                R.violation("c10:complete-fields", "prefix of %d bytes of %s: %d events emitted, %d fields are complete in the prefix"
                            % (c[3]["k"], c[1], len(ie_np), len(exp)), replay_of(c, "1", impl[j]))
    # source kinds
    sample = cases if ctx["tier"] != "quick" else R.rng.sample(cases, min(len(cases), 300))
    sres = common.run_impl("impl_worker", ["src 1 %s %s" % (c[1], h(c[2])) for c in sample])
    for c, r in zip(sample, sres):
        if r != "SAME":
            R.violation("c10:source", "decoding %s differs for byte source kind %s" % (c[1], r), replay_of(c, "1", r))
    R.coverage["source_kind_runs"] = len(sample) * 7
    # the same for the container front-ends: whole containers and their prefixes (cut anywhere, and inside section
    # markers of an swtpm log), every kind of iterable
    freqs, fmeta = [], []
    for s_ in C.streams(n=6, maxpairs=2):
        data, parts = s_[2], s_[3]["parts"]
        conts = [("hex", render_hex(R.rng, data)), ("swtpm", render_swtpm(R.rng, parts, R.rng.choice(["plain", "plain", "withS"])))]
        for kind, text in conts:
            cutpos = {len(text)} | {R.rng.randrange(len(text) + 1) for _ in range(4)}
            if kind == "swtpm":
                marks = [m.start() for m in re.finditer(b"SWTPM_IO", text)]
                for m0 in marks[:1] + (R.rng.sample(marks, 1) if marks else []):
                    cutpos |= {m0 + k for k in (1, 4, 7, 8)}
                    cutpos.add(max(0, m0 - 1))
            for k in sorted(cutpos):
                for fe in (kind,):      # the property's front-ends: hex and swtpm-log (auto-detection is C15's)
                    mode = R.rng.choice(["1", "0"])
                    freqs.append("fesrc %s %s S %s" % (fe, mode, h(text[:k])))
                    fmeta.append((fe, mode, text[:k]))
    fres = common.run_impl("impl_worker", freqs)
    for (fe, mode, text), r, q in zip(fmeta, fres, freqs):
        if r != "SAME":
            R.violation("c10:source:" + fe, "decoding through the %s front-end differs for byte source kind %s" % (fe, r[:200]),
                        {"front_end": fe, "strict": mode == "1", "container_hex": h(text), "result": r, "how": "harness/impl_worker.py: " + q[:80] + "..."})
    R.coverage["front_end_source_kind_runs"] = len(freqs) * 7
    # ... and a prefix of a container decodes like the bytes complete in it: the bytes the front-end's scanner delivers
    # (model vs implementation), and the events of the front-end vs the Binary decode of exactly those bytes
    pre = [(fe, text) for (fe, mode, text) in fmeta if mode == "1"]
    for (fe, text) in list(pre):
        # cut directly behind a hex pair / inside one
        m_ = list(re.finditer(b"[0-9A-Fa-f]{2}", text))
        for mm in R.rng.sample(m_, min(len(m_), 2)):
            pre.append((fe, text[:mm.end()]))
            pre.append((fe, text[:mm.end() - 1]))
    pre = pre if ctx["tier"] != "quick" else R.rng.sample(pre, min(len(pre), 80))
    sreqs_ = ["fe %s %s" % (fe, h(text)) for fe, text in pre]
    simpl = common.run_impl("impl_worker", sreqs_)
    smodel = common.run_model(sreqs_) if ctx["driver_ok"] else simpl
    ereqs_, emeta_ = [], []
    for (fe, text), im, mo, q in zip(pre, simpl, smodel, sreqs_):
        if im != mo:
            R.violation("c10:prefix:" + fe, "the %s front-end delivers %s for a prefix of a container, the scanner model %s" % (fe, im[:120], mo[:120]),
                        {"front_end": fe, "container_hex": h(text), "implementation": im, "model": mo, "how": "harness/impl_worker.py: " + q[:80] + "..."})
        parts_ = mo.split("|")
        carried, ok_ = (parts_[0] or "-"), (parts_[1] if len(parts_) > 1 else "0")
        if ok_ == "1":
            ereqs_ += ["fevents %s 1 S %s" % (fe, h(text)), "fevents binary 1 S %s" % (carried if carried else "-")]
            emeta_.append((fe, text))
    eres_ = common.run_impl("impl_worker", ereqs_)
    for k_, (fe, text) in enumerate(emeta_):
        a_, b_ = eres_[2 * k_], eres_[2 * k_ + 1]
        if a_ != b_:
            R.violation("c10:prefix-events:" + fe, "a prefix of a %s container does not decode like the bytes complete in it" % fe,
                        {"front_end": fe, "container_hex": h(text), "front_end_result": a_[-400:], "binary_result": b_[-400:]})
    R.coverage["front_end_prefix_cases"] = len(pre)
    bad = correspondence(R, ctx, reqs, impl, model, what="events, pull count of every event, outcome")
    report_disagreements(R, ctx, reqs, impl, model, bad, flagged)
    distribution(R, cases, impl)


# ----------------------------------------------------------------------------- C20


def json_diff(a, b, path="", out=None, limit=40):
    if out is None:
        out = []
    if len(out) >= limit:
        return out
    if type(a) != type(b):
        out.append("%s: %r -> %r" % (path, a if not isinstance(a, (dict, list)) else type(a).__name__, b if not isinstance(b, (dict, list)) else type(b).__name__))
    elif isinstance(a, dict):
        for k in sorted(set(a) | set(b)):
            if k not in a:
                out.append("%s/%s: added" % (path, k))
            elif k not in b:
                out.append("%s/%s: removed" % (path, k))
            else:
                json_diff(a[k], b[k], path + "/" + str(k), out, limit)
    elif isinstance(a, list):
        if len(a) != len(b):
            out.append("%s: length %d -> %d" % (path, len(a), len(b)))
        for i, (x, y) in enumerate(zip(a, b)):
            json_diff(x, y, "%s[%d]" % (path, i), out, limit)
    elif a != b:
        out.append("%s: %r -> %r" % (path, a, b))
    return out


@runner("C20")
def c20(R, ctx):
    cur, pin = ctx["tables"], ctx["pinned"]
    diffs = json_diff(pin, cur)
    nprims, ntypes = len(cur["prims"]), len(cur["types"])
    nfields = sum(len(t.get("fields", t.get("arms", []))) for t in cur["types"].values())
    R.coverage.update({"evaluations": nprims + ntypes + 4 * len(cur["cmd_handles"]), "distinct_nontrivial": nprims + ntypes,
                       "rule": "every primitive, structure/TPM2B/union/area type and command-map entry of the regenerated tables is compared with the pinned snapshot and checked for coherence inside Coq (finite, complete)",
                       "exhaustive": True, "prims": nprims, "types": ntypes, "fields_and_arms": nfields,
                       "descriptor_differences": len(diffs),
                       "samples": [{"type": "TPMS_AUTH_COMMAND", "descriptor": cur["types"].get("TPMS_AUTH_COMMAND")}]})
    if cur.get("dup_names"):
        R.violation("c20:duplicate-class-name:" + ",".join(cur["dup_names"]),
                    "two distinct layout classes share the name(s) %s (each command code must have its own, distinctly named layouts)" % cur["dup_names"],
                    {"duplicate_names": cur["dup_names"]})
    if diffs:
        # search for a concrete message that now decodes differently from the pinned layout
        C = Cases(R.rng, "thorough" if ctx["tier"] == "thorough" else "quick")
        cases = C.wellformed(per_type=2, per_cc=2)
        before = len(R.violations)
        flagged, reqs, impl, model, spec = layout_oracle(R, ctx, cases, sigprefix="c20:layout")
        if len(R.violations) == before:
            R.violation("c20:pinned-mismatch", "the layout tables differ from the pinned snapshot: " + "; ".join(diffs[:6]),
                        {"theorem": "Properties/C20.v: C20_pinned (Tables.T = Pinned.T)", "differences": diffs}, found_input=False)
        else:
            R.violations = [(s, w + " [tables differ from the pinned snapshot: %s]" % "; ".join(diffs[:3]), dict(r, differences=diffs), f) for (s, w, r, f) in R.violations]


# ----------------------------------------------------------------------------- C17


@runner("C17")
def c17(R, ctx):
    cur = ctx["tables"]
    types = sorted(n for n, p in cur["prims"].items() if p["kind"]["k"] == "bits")
    reqs, meta = [], []
    for n in types:
        p = cur["prims"][n]
        nb = 8 * p["width"]
        masks = [m for _, m in p["kind"]["masks"]]
        if nb <= 8:
            vals = list(range(1 << nb))
        else:
            vals = [0, (1 << nb) - 1] + [1 << i for i in range(nb)] + [((1 << nb) - 1) ^ (1 << i) for i in range(nb)]
            vals += masks + [((1 << nb) - 1) ^ m for m in masks]
            vals += [R.rng.randrange(1 << nb) for _ in range(60 if ctx["tier"] == "quick" else 2000)]
        for v in vals:
            reqs.append("attr cur %s %d" % (n, v))
            meta.append((n, v, nb, p["kind"]["masks"]))
    impl = common.run_impl("impl_worker", reqs)
    model = common.run_model(reqs) if ctx["driver_ok"] else impl
    flagged = set()
    for k, (n, v, nb, masks) in enumerate(meta):
        # oracle on the implementation's own output
        fields = impl[k].split(",")
        problem = None
        union = 0
        for (mn, m) in masks:
            if union & m:
                problem = "masks overlap at %#x" % (union & m)
            union |= m
        if union != (1 << nb) - 1 and problem is None:
            problem = "bits %#x are in no field" % (((1 << nb) - 1) ^ union)
        shown = [None] * nb
        if problem is None:
            if len(fields) != len(masks):
                problem = "rows/fields mismatch: " + impl[k][:80]
            else:
                for f, (mn, m) in zip(fields, masks):
                    try:
                        name, rest = f.split("=")
                        acc, row = rest.split(":")
                    except ValueError:
                        problem = "unparsable row " + f
                        break
                    ctz = (m & -m).bit_length() - 1
                    if int(acc) != (v & m) >> ctz:
                        problem = "accessor %s returns %s, field bits are %d" % (name, acc, (v & m) >> ctz)
                        break
                    if len(row) != nb:
                        problem = "row %s has %d positions" % (name, len(row))
                        break
                    for j, ch in enumerate(row):
                        if ch != ".":
                            if shown[j] is not None:
                                problem = "bit position %d shown twice" % j
                            shown[j] = ch
                if problem is None:
                    want = format(v, "0%db" % nb)
                    if "".join(c or "." for c in shown) != want:
                        problem = "overlay of the rows is %s, value is %s" % ("".join(c or "." for c in shown), want)
        if problem:
            flagged.add(k)
            R.violation("c17:%s:%s" % (n, problem.split(" ")[0]), "%s(%#x): %s" % (n, v, problem),
                        {"type": n, "value": v, "implementation": impl[k], "how": "harness/impl_worker.py: attr cur %s %d" % (n, v)})
    bad = [k for k in range(len(reqs)) if impl[k] != model[k]]
    R.coverage.update({"correspondence_cases": len(reqs), "correspondence_disagreements": len(bad),
                       "correspondence_compares": "per field: accessor value and printed bit row",
                       "evaluations": len(reqs), "distinct_nontrivial": len(set((m[0], m[1]) for m in meta)),
                       "rule": "all attribute types; all 256 values of 8-bit types; for wider words 0, all-ones, walking ones/zeros, every mask and its complement, seeded random words; distinct = distinct (type, value)",
                       "samples": [{"request": reqs[i], "implementation": impl[i]} for i in (0, len(reqs) // 2)],
                       "attribute_types": types})
    for k in bad:
        if k not in flagged:
            R.violation("correspondence:C17", "model and implementation differ on `%s`: impl=%r model=%r" % (reqs[k], impl[k][:200], model[k][:200]),
                        {"request": reqs[k], "implementation": impl[k], "model": model[k], "theorem": "correspondence Model/Attr.v <-> values.py/pretty"}, found_input=False)
            break


# ----------------------------------------------------------------------------- C18


@runner("C18")
def c18(R, ctx):
    highs = [0, 0xFFFFF000, 0x00001000, R.rng.randrange(1, 1 << 20) << 12]
    if ctx["tier"] != "quick":
        highs += [R.rng.randrange(1, 1 << 20) << 12 for _ in range(6)]
    vals = [0]
    for hi in highs:
        for low in range(4096):
            if low & 0x180:
                vals.append(hi | low)
    # words outside the TPM 2.0 layouts (bits 7 and 8 clear, i.e. TPM 1.2 style, incl. a zero low part under reserved
    # high bits): the format rules say nothing about their text except that only the zero WORD is SUCCESS; model
    # correspondence, the partition of the rows and the shown rows are checked on them too
    n20 = len(vals)
    lows12 = [0, 1, 0x7F, 0x400, 0x800, 0xC7F] + [R.rng.randrange(4096) & ~0x180 for _ in range(12)]
    vals += [hi | low for hi in highs for low in lows12 if (hi | low) != 0]
    reqs = ["rc cur %d" % v for v in vals]
    impl = common.run_impl("impl_worker", reqs)
    model = common.run_model(reqs) if ctx["driver_ok"] else impl
    spec = common.run_model(["rcspec %d" % v for v in vals]) if ctx["driver_ok"] else None
    flagged = set()
    for k, v in enumerate(vals):
        text, rows, shown = (impl[k].split("|") + ["", ""])[:3]
        impl[k] = text + "|" + rows          # the model has no printer: correspondence on text and attribute rows
        problem = None
        if k < n20 and spec is not None and text != spec[k]:
            problem = "text form is %r, the TPM 2.0 format rules give %r" % (text, spec[k])
        elif k >= n20 and text == "TPM_RC.SUCCESS":
            problem = "text form of a non-zero word is SUCCESS"
        elif v != 0:
            union = 0
            for r in rows.split(","):
                try:
                    m = int(r.split(":")[1])
                except (IndexError, ValueError):
                    problem = "unparsable row %r" % r
                    break
                if union & m:
                    problem = "bit rows overlap at %#x" % (union & m)
                union |= m
            if problem is None and union != 0xFFFFFFFF and k < n20:
                problem = "bit rows leave %#x uncovered" % (0xFFFFFFFF ^ union)
            if problem is None:
                # the rows as SHOWN by the pretty printer: 32 positions, the field's bits at its positions, dots elsewhere
                exp = []
                for r in rows.split(","):
                    nm, m = r.split(":")[0], int(r.split(":")[1])
                    exp.append(nm + "=" + "".join((str((v >> b) & 1) if (m >> b) & 1 else ".") for b in range(31, -1, -1)))
                if shown.split(",") != exp:
                    bad_rows = [(a, b) for a, b in zip(shown.split(","), exp) if a != b][:2]
                    problem = "shown bit rows differ from the fields' bits: %r" % (bad_rows or [shown[:80]],)
        if problem:
            flagged.add(k)
            R.violation("c18:" + problem.split(" ")[0] + ":" + ("fmt1" if v & 0x80 else "fmt0"), "TPM_RC(%#x): %s" % (v, problem),
                        {"value": v, "implementation": impl[k], "expected_text": spec[k] if spec else None,
                         "how": "str(tpmstream.spec.structures.constants.TPM_RC(%d)) / .attributes()" % v})
    bad = [k for k in range(len(reqs)) if impl[k] != model[k]]
    R.coverage.update({"correspondence_cases": len(reqs), "correspondence_disagreements": len(bad),
                       "correspondence_compares": "str(TPM_RC(v)) and every attributes() row (name, mask, details up to ':')",
                       "evaluations": len(reqs), "distinct_nontrivial": len(set(vals)), "exhaustive": True,
                       "rule": "all 4096 low-12-bit values with bit 7 or bit 8 set, plus zero, each with several settings of the reserved high bits; plus words outside the TPM 2.0 layouts (bits 7, 8 clear; zero low part under reserved high bits) for correspondence, SUCCESS-only-for-zero, disjoint rows and the shown rows (the partition clause speaks about TPM 2.0 codes only: the TPM 1.2 layout leaves its reserved bit 9 unshown)",
                       "outside_tpm20_layout": len(vals) - n20,
                       "samples": [{"request": reqs[i], "implementation": impl[i]} for i in (1, len(reqs) // 3)]})
    for k in bad:
        if k not in flagged:
            R.violation("correspondence:C18", "model and implementation differ on `%s`: impl=%r model=%r" % (reqs[k], impl[k][:200], model[k][:200]),
                        {"request": reqs[k], "implementation": impl[k], "model": model[k], "theorem": "correspondence Model/RC.v <-> tpm_rc.py"}, found_input=False)
            break


# ----------------------------------------------------------------------------- C16


def int_samples(R, ctx, p, tier):
    w = p["width"]
    lim = 1 << (8 * w)
    lo, hi = (-(lim // 2), lim // 2 - 1) if p["signed"] else (0, lim - 1)
    if w == 1 or (w == 2 and tier != "quick"):
        return list(range(lo, hi + 1))
    pts = {lo, lo + 1, hi, hi - 1, 0, 1, -1 if lo < 0 else 2}

    def around(x):
        for d in (-2, -1, 0, 1, 2):
            pts.add(x + d)

    def members(ms):
        for m in ms:
            if m["k"] == "const":
                around(m["v"])
            else:
                around(m["lo"])
                around(m["hi"] - 1)
                around(m["hi"])
    for it in p["valid"]:
        k = it["k"]
        if k in ("vrange", "vnamed"):
            around(it["lo"])
            around(it["hi"] - 1)
            around(it["hi"])
            if it["hi"] - it["lo"] > 4:
                pts.add(R.rng.randrange(it["lo"], it["hi"]))
        elif k in ("vmember", "vint"):
            around(it["v"])
        else:
            members(it["ms"])
    if p["kind"]["k"] == "enum":
        members(p["kind"]["ms"])
    if p["kind"]["k"] == "bits":
        for _, m in p["kind"]["masks"]:
            around(m)
    for _ in range(40 if tier == "quick" else 600):
        pts.add(R.rng.randrange(lo, hi + 1))
    if w == 2:
        for _ in range(600):
            pts.add(R.rng.randrange(lo, hi + 1))
    return sorted(x for x in pts if lo <= x <= hi)


@runner("C16")
def c16(R, ctx):
    cur = ctx["tables"]
    reqs, meta = [], []
    for n in sorted(cur["prims"]):
        p = cur["prims"][n]
        if p["kind"]["k"] == "rc":
            continue  # text form of TPM_RC is C18's
        for v in int_samples(R, ctx, p, ctx["tier"]):
            reqs.append("int cur %s %d" % (n, v))
            meta.append((n, v))
    impl = common.run_impl("impl_worker", reqs)
    model = common.run_model(reqs) if ctx["driver_ok"] else impl
    spec = common.run_model([r.replace("int cur", "int pin") for r in reqs]) if ctx["driver_ok"] else None
    flagged = set()
    for k, (n, v) in enumerate(meta):
        if spec is None:
            break
        if impl[k] != spec[k]:
            iv, ir, ib, it = (impl[k].split("|") + ["", "", "", ""])[:4]
            sv, sr, sb, st_ = (spec[k].split("|") + ["", "", "", ""])[:4]
            what = "validity" if iv != sv else "byte form" if ib != sb else "text form" if it != st_ else "representability"
            flagged.add(k)
            R.violation("c16:%s:%s" % (what.split(" ")[0], n), "%s(%d): %s is %r, the pinned declaration gives %r"
                        % (n, v, what, {"validity": iv, "byte form": ib, "text form": it}.get(what, ir), {"validity": sv, "byte form": sb, "text form": st_}.get(what, sr)),
                        {"type": n, "value": v, "implementation": impl[k], "expected": spec[k], "how": "harness/impl_worker.py: int cur %s %d" % (n, v)})
    # operators etc. (correspondence-only claims, decided on the implementation directly)
    oreqs, ometa = [], []
    names = sorted(n for n in cur["prims"])
    for n in names:
        p = cur["prims"][n]
        if p["kind"]["k"] in ("bits", "rc"):
            continue  # attribute words do not emulate int operators (bit accessors instead)
        vals = int_samples(R, ctx, p, "quick")
        pick = R.rng.sample(vals, min(len(vals), 25 if ctx["tier"] == "quick" else 120))
        for v in pick:
            w = R.rng.choice([0, 1, -1, 2, 3, 7, 255, -128, 65535, v, v + 1, R.rng.randrange(-1000, 1000)])
            oreqs.append("intops %s %d %d" % (n, v, w))
            ometa.append((n, v, w))
    ores = common.run_impl("impl_worker", oreqs)
    for (n, v, w), r in zip(ometa, ores):
        if r != "OK":
            R.violation("c16:ops:" + r.split(" ")[1] if " " in r else "c16:ops", "%s(%d) does not behave like the plain integer (other operand %d): %s" % (n, v, w, r),
                        {"type": n, "value": v, "other": w, "result": r, "how": "harness/impl_worker.py: intops %s %d %d" % (n, v, w)})
    bad = [k for k in range(len(reqs)) if impl[k] != model[k]]
    R.coverage.update({"correspondence_cases": len(reqs), "correspondence_disagreements": len(bad),
                       "correspondence_compares": "is_valid(), representable, to_bytes(), format()",
                       "operator_checks": len(oreqs),
                       "evaluations": len(reqs) + len(oreqs), "distinct_nontrivial": len(set(meta)),
                       "rule": "all primitive types; every value of 8-bit types (16-bit: exhaustive in the thorough tier, else boundaries + 600 random); for wider types width limits, every declared member / interval end point +-2 and seeded random values; distinct = distinct (type, value)",
                       "samples": [{"request": reqs[i], "implementation": impl[i]} for i in (0, len(reqs) // 2, len(reqs) - 1)]})
    for k in bad:
        if k not in flagged:
            R.violation("correspondence:C16", "model and implementation differ on `%s`: impl=%r model=%r" % (reqs[k], impl[k][:200], model[k][:200]),
                        {"request": reqs[k], "implementation": impl[k], "model": model[k], "theorem": "correspondence Model/Ints.v <-> base_type.py/values.py"}, found_input=False)
            break


# ----------------------------------------------------------------------------- C12


@runner("C12")
def c12(R, ctx):
    C = Cases(R.rng, ctx["tier"])
    cur = ctx["tables"]
    if cur["cache"] != {"k": "lru", "size": None}:
        R.notes.append("memo of TPMS_PARAMS.encrypted(): %r" % (cur["cache"],))
    # messages with encrypted parameter areas of different commands, plus ordinary ones
    tpm2b_first = []
    for cc, tkey in cur["cmd_params"]:
        t = cur["types"][tkey]
        if t["fields"] and t["fields"][0]["k"] == "plain" and "t" in t["fields"][0]["t"] and cur["types"][t["fields"][0]["t"]["t"]]["k"].startswith("tpm2b"):
            tpm2b_first.append(cc)
    pool = []
    same_cc = []    # the same command code with and without an opaque first parameter: plain, encrypted, plain again
    for cc in R.rng.sample(tpm2b_first, min(len(tpm2b_first), 14 if ctx["tier"] == "quick" else 40)):
        c, ci = C.G.command(cc, nsessions=R.rng.choice([1, 2]), decrypt=True)
        pool.append(("C", c))
        r, ri = C.G.response(cc, enc=True)
        pool.append(("R:%d:1" % cc, r))
        cp, _ = C.G.command(cc, nsessions=R.rng.choice([0, 1]), decrypt=False)
        rp, _ = C.G.response(cc, enc=False)
        pool.append(("C", cp))
        pool.append(("R:%d:0" % cc, rp))
        same_cc.append([("C", cp), ("C", c), ("C", cp)])
        same_cc.append([("R:%d:0" % cc, rp), ("R:%d:1" % cc, r), ("R:%d:0" % cc, rp)])
    for _ in range(10):
        c, ci, r, ri = C.G.pair()
        pool.append(("C", c))
        pool.append(("S", c + r))
    # structure-type roots, also cut inside a size-prefixed region and with an inner size too large (decodes that
    # end with an exception must not influence later ones)
    tcases = [c for c in C.wellformed(per_type=1, per_cc=0, corpus_n=0) if c[1].startswith("T:") and len(c[2]) >= 3]
    aborted = []
    for c in R.rng.sample(tcases, min(len(tcases), 24 if ctx["tier"] == "quick" else 90)):
        pool.append((c[1], c[2]))
        cut = c[2][:R.rng.randrange(1, len(c[2]))]
        big = bytes([0xFF, 0xF0]) + c[2][2:]
        aborted.append([(c[1], c[2]), (c[1], cut), (c[1], c[2])])
        aborted.append([(c[1], c[2]), (c[1], big), (c[1], c[2])])
        pool.append((c[1], cut))
    # pcapng captures with different link layers (the reader tries raw IP, then Ethernet, per package)
    captures = []
    for _ in range(4 if ctx["tier"] == "quick" else 16):
        a, b = C.G.pair(), C.G.pair()
        pa, pb = "+".join([a[0].hex(), a[2].hex()]), "+".join([b[0].hex(), b[2].hex()])
        e1, e2 = R.rng.choice([("Peth", "Pip"), ("Pip", "Peth")])
        captures.append([(e1, pa), (e2, pb), (e1, pa)])
        captures.append([(e1, pa), (e2, pa)])
    # an out-of-range value under a restricted type, and between its two decodes an input in which the same integer is
    # a valid value of another type (a decoder remembering accepted values across types would accept it the second time)
    crossed = []
    leaves_by_value = {}
    for c in tcases:
        for (kind, off, w, pn, z) in c[3].get("faults", []):
            if kind == "leaf":
                leaves_by_value.setdefault(w, []).append((c, off, pn))
    for c in R.rng.sample(tcases, min(len(tcases), 60 if ctx["tier"] == "quick" else 300)):
        vf = C.value_faults(c, per=1)
        if not vf:
            continue
        x, pn, w = vf[0][3]["new"], vf[0][3]["prim"], vf[0][3]["w"]
        hosts = [(hc, off, qn) for (hc, off, qn) in leaves_by_value.get(w, []) if qn != pn and x >= 0 and C.G.is_valid(qn, x)]
        if not hosts:
            continue

        def family(n):
            t = n.split("_")
            return t[1] if len(t) > 1 else n
        # types of the same family first (TPM_ALG / TPMI_ALG_*, TPM_ST / TPMI_ST_*, TPM_RH / TPMI_RH_*, ...): they are
        # declared as subsets of one another
        kin = [h_ for h_ in hosts if family(h_[2]) == family(pn)]
        picks = R.rng.sample(kin, min(len(kin), 2)) + [R.rng.choice(hosts)]
        for hc, off, qn in picks:
            host = gen.set_field(hc[2], off, w, x)
            crossed.append([(c[1], vf[0][2]), (hc[1], host), (c[1], vf[0][2])])
        if len(crossed) >= (30 if ctx["tier"] == "quick" else 200):
            break
    R.coverage["histories_with_a_value_valid_elsewhere"] = len(crossed)
    # a response decoded on its own (no encryption expectation) before and after a command with the same code whose
    # session asks for response encryption, and vice versa
    for cc in R.rng.sample(tpm2b_first, min(len(tpm2b_first), 8 if ctx["tier"] == "quick" else 30)):
        ce, _ = C.G.command(cc, nsessions=1, encrypt=True)
        rp, _ = C.G.response(cc, enc=False, rc=0, nsessions=1)
        crossed.append([("R:%d:0" % cc, rp), ("C", ce), ("R:%d:0" % cc, rp)])
        re_, _ = C.G.response(cc, enc=True, rc=0)
        cp0, _ = C.G.command(cc, nsessions=1, encrypt=False)
        crossed.append([("R:%d:1" % cc, re_), ("C", cp0), ("R:%d:1" % cc, re_)])
    # failed responses with response codes of every format (named by the specification or not), under different tags and
    # with other handle / parameter / session number bits; the worker prints what it decoded between the rounds
    rc_pool = ([0x100 + k for k in range(0, 0x80)] + [0x900 + k for k in range(0, 0x40)] + [0x080 + k for k in range(0, 0x40)]
               + [0x0C0 + k for k in range(0, 0x40)] + [0x580 + k for k in range(0, 0x40)] + [0x001 + k for k in range(0, 0x60)] + [0xA80 + k for k in range(0, 0x40)])
    for _ in range(30 if ctx["tier"] == "quick" else 300):
        v = R.rng.choice(rc_pool)
        tg = R.rng.choice([0x8001, 0x8001, 0x8002, 0x00C4])
        cc = R.rng.choice(C.G.ccs)
        r1_ = tg.to_bytes(2, "big") + (10).to_bytes(4, "big") + v.to_bytes(4, "big")
        v2 = v ^ R.rng.choice([0, 0x100, 0x200, 0x400, 0x800]) if (v & 0x80) else v
        r2_ = (0x8001).to_bytes(2, "big") + (10).to_bytes(4, "big") + v2.to_bytes(4, "big")
        root = R.rng.choice(["R:-:0", "R:%d:0" % cc])
        crossed.append([(root, r1_), (R.rng.choice(["R:-:0", "R:%d:0" % cc]), r2_), (root, r1_)])
    # a bounded memo (the translator reads its capacity k): the witness of C12_every_bounded_memo_refuted replayed on the
    # implementation - k+1 different encrypted parameter classes, then the first again
    kcap = cur["cache"].get("size") if cur["cache"].get("k") == "lru" else 0
    if kcap is not None:
        wit = []
        for cc in tpm2b_first:
            c_, _ = C.G.command(cc, nsessions=1, decrypt=True)
            wit.append(("C", c_))
        rsp2b = [cc for cc, tkey in cur["rsp_params"] if cur["types"][tkey]["fields"] and cur["types"][tkey]["fields"][0]["k"] == "plain"
                 and "t" in cur["types"][tkey]["fields"][0]["t"] and cur["types"][cur["types"][tkey]["fields"][0]["t"]["t"]]["k"].startswith("tpm2b")]
        for cc in rsp2b:
            r_, _ = C.G.response(cc, enc=True, rc=0)
            wit.append(("R:%d:1" % cc, r_))
        need = max(int(kcap), 0) + 1
        if len(wit) >= need:
            crossed.append(wit[:need] + [wit[0]])
        R.coverage["bounded_memo_witness"] = {"capacity": kcap, "classes_needed": need, "classes_available": len(wit)}
    reqs = []
    hist = []
    for items in crossed:
        hist.append(items)
        reqs.append("hist " + ",".join("%s~%s" % (root, h(b)) for root, b in items))
    for items in captures:
        hist.append(items)
        reqs.append("hist " + ",".join("%s~%s" % (root, b) for root, b in items))
    for items in same_cc + aborted:
        hist.append(items)
        reqs.append("hist " + ",".join("%s~%s" % (root, h(b)) for root, b in items))
    for _ in range(60 if ctx["tier"] == "quick" else 600):
        k = R.rng.choice([2, 2, 3, 3, 4])
        items = [R.rng.choice(pool) for _ in range(k)]
        if R.rng.random() < 0.5:
            items.append(items[0])
        hist.append(items)
        reqs.append("hist " + ",".join("%s~%s" % (root, h(b)) for root, b in items))
    res = common.run_impl("impl_worker", reqs, nproc=8)
    enc_hist = 0
    for items, r, q in zip(hist, res, reqs):
        if sum(1 for root, b in items if root != "S") >= 2:
            enc_hist += 1
        if not r.startswith("OK"):
            R.violation("c12:" + r.split(" ")[1], "decoding the same input again in one process gives a result that does not compare equal (%s); history of %d decodes"
                        % (r, len(items)), {"history": [{"root": root, "input_hex": (b if isinstance(b, str) else h(b))} for root, b in items], "result": r,
                                            "how": "harness/impl_worker.py: " + q[:200]})
    R.coverage.update({"evaluations": len(reqs), "distinct_nontrivial": len(set(reqs)),
                       "rule": "histories of 2-5 decodes drawn from messages with encrypted parameter areas of different commands (commands and responses), ordinary pairs, pcapng captures with raw-IP and Ethernet link layers (also compared with the decode of the carried bytes) and structure-type roots incl. inputs cut inside a size-prefixed region or with an oversized inner size (decodes ending in an exception); failed responses with response codes of every format; each history is run in strict mode and in warn mode, sequentially twice - everything decoded in the first round is printed (str, repr, both printers) before the second - and step-wise interleaved (round robin over next()); results compared with Python == (events, warnings, by-product objects, objects rebuilt from events); distinct = distinct histories",
                       "source_audit": {"what": "default arguments evaluated once, global/nonlocal statements, memo decorators/helpers besides the known ones, in every module under src/tpmstream (gen/translate.py audit_sources -> gen/Audit.v, theorem C12_no_further_shared_state_in_the_sources)", "findings": common.AUDIT},
                       "histories_with_two_or_more_encrypted_areas": enc_hist,
                       "samples": [{"history": reqs[0][:300], "result": res[0]}],
                       "correspondence_compares": "Model/Cache.v capacity = lru_cache(maxsize) read from /repo by the translator: %r" % (cur["cache"],)})


# ----------------------------------------------------------------------------- C07


def first_warning(events):
    for j, e in enumerate(events):
        if e.startswith("W "):
            return j
    return None


@runner("C07")
def c07(R, ctx):
    C = Cases(R.rng, ctx["tier"])
    base = C.wellformed(per_type=1, per_cc=1, corpus_n=40) + C.streams(n=10)
    cases = list(base) if ctx["tier"] != "quick" else R.rng.sample(base, min(len(base), 250))
    for b in R.rng.sample(base, min(len(base), 300)):
        cases += C.size_faults(b, per=1) + C.value_faults(b, per=1) + C.cuts(b, n=1)[:2]
        if b[1] != "S":
            cases += C.suffixes(b)
    cases += C.arbitrary(n=250)
    cases += C.enc_mismatches(n=10)
    res, _ = engine(R, ctx, cases, modes=("1", "0"))
    reqs1, impl1, model1 = res["1"]
    reqs0, impl0, model0 = res["0"]
    flagged = set()
    for k, c in enumerate(cases):
        se, so = split_result(no_pulled(impl1[k]))
        we, wo = split_result(no_pulled(impl0[k]))
        if so.startswith("CRASH") or wo.startswith("CRASH"):
            continue  # internal errors are C06's / C08's subject
        fw = first_warning(we)
        problem = None
        if so == "ACC":
            if fw is not None or we != se or wo != "ACC":
                problem = "strict accepts, warn mode %s" % ("emits a warning" if fw is not None else "emits different events" if we != se else "ends with " + wo)
        else:
            if so.startswith("RAISE"):
                err = so[len("RAISE "):].rsplit(" rem=", 1)[0]
            elif so.startswith("DEP"):
                err = "D " + so[4:]
            else:
                err = "S " + so[4:]
            if fw is None:
                # no warning: warn mode must have raised the same error itself (layout unknowable)
                if wo.startswith("RAISE") and wo[len("RAISE "):].rsplit(" rem=", 1)[0] == err and we == se and err.split(" ")[-1] in ("sel", "cc"):
                    pass
                else:
                    problem = "strict raises %r, warn mode emits no warning and ends with %r" % (err, wo)
            else:
                before = we[:fw]
                want_before = se + ([before[-1]] if err.startswith("V ") and len(before) == len(se) + 1 else [])
                if err.startswith("V ") and len(before) != len(se) + 1:
                    problem = "value error: warn mode must emit the offending event and then the warning (events before first warning: %d, strict events: %d)" % (len(before), len(se))
                elif before != want_before:
                    problem = "events before the first warning differ from the events strict mode emitted before raising"
                elif we[fw] != "W " + err:
                    problem = "first warning is %r, strict mode raised %r" % (we[fw], err)
                elif err.startswith("V "):
                    ev = before[-1].split(" ")
                    ef = err.split(" ")
                    if ev[1] != ef[1] or ev[3] != ef[3]:
                        problem = "offending event %r does not match the value error %r" % (before[-1], err)
        if problem is None and fw is None and wo == "ACC" and so != "ACC":
            problem = "warn mode emits no warning but strict mode ends with %r" % so
        if problem:
            flagged.add(k)
            R.violation("c07:" + problem.split(",")[0].split(":")[0][:40].replace(" ", "-"), "%s (%s)" % (problem, c[1]),
                        replay_of(c, "1", impl1[k], {"warn_mode": impl0[k]}))
    for (reqs, impl, model) in ((reqs1, impl1, model1), (reqs0, impl0, model0)):
        bad = correspondence(R, ctx, reqs, impl, model)
        report_disagreements(R, ctx, reqs, impl, model, bad, flagged)
    distribution(R, cases, impl1)
    R.coverage["warn_outcomes"] = dict(Counter(err_class(split_result(x)[1]) for x in impl0))


# ----------------------------------------------------------------------------- C03


def size_field_event(events, cpath):
    for e in events:
        f = e.split(" ")
        if f[0] == "E" and f[1] == cpath:
            return f
    return None


@runner("C03")
def c03(R, ctx):
    C = Cases(R.rng, ctx["tier"])
    base = C.wellformed(per_type=1, per_cc=1, corpus_n=60)
    cases = []
    for b in base:
        cases += C.size_faults(b, per=3)
    cases += R.rng.sample(base, min(len(base), 200)) + C.arbitrary(n=150)
    cases = C.regress("C03") + cases
    res, spec = engine(R, ctx, cases, modes=("1",), need_spec=True)
    reqs, impl, model = res["1"]
    flagged = set()
    kinds = Counter()
    for k, c in enumerate(cases):
        ie, io = split_result(impl[k])
        problem = None
        if io == "ACC":
            # a response decoded with the encryption flag although its tag announces no sessions is rejected by the
            # specification for that reason (the flag is the caller's input), not because of a size field: not a C03 matter
            flag_without_sessions = c[1].startswith("R:") and c[1].endswith(":1") and bytes(c[2][:2]) != b"\x80\x02"
            # a response decoded without a command code: the specification (which reads a response with its command's
            # layout) has no reading; only failed responses are accepted there - header-only - and exactness is directly
            # that the size field is the length of the input, which is the length of the header
            no_cc = c[1].startswith("R:-:")
            if no_cc:
                if not (len(c[2]) == 10 and int.from_bytes(c[2][2:6], "big") == 10):
                    problem = "accepted without a command code, but responseSize does not equal the length of the header-only message"
            elif spec is not None and spec[k] == "NOTWF" and not flag_without_sessions:
                problem = "accepted, but some size field does not equal the length of the region it governs (the input does not parse with exact sizes)"
        elif io.startswith("RAISE") and io.split(" ")[1] in ("X", "A", "U"):
            f = io.split(" ")
            kind = f[1]
            kinds[kind] += 1
            cpath, cmax, calready = f[2], f[3], int(f[4])
            sf = size_field_event(ie, cpath)
            sp = spans_of(ctx, ie)
            if cpath == "-" or cmax == "-":
                problem = "error does not name the violated size field and its limit"
            elif sf is None:
                problem = "the violated size field %s was not emitted before the error" % cpath
            elif sf[3] != cmax:
                problem = "reported limit %s differs from the value %s read at %s" % (cmax, sf[3], cpath)
            else:
                # bytes counted so far = bytes of the fields emitted since the region started
                start = None
                for (e, a, b) in sp:
                    if e.split(" ")[1] == cpath:
                        start = b
                top = cpath in ("/.commandSize", "/.responseSize")
                total = sp[-1][2] if sp else 0
                counted = total if top else total - (start or 0)
                if kind == "A":
                    # raised when the inner size field was read: that field is the last one emitted
                    viol, val, by = f[5], int(f[6]), int(f[7])
                    last = [e for e in ie if e.startswith("E ") and e.split(" ")[3] != "..."][-1].split(" ")
                    if last[1] != viol or int(last[3]) != val:
                        problem = "anticipated error names %s=%d but the last field read is %s=%s" % (viol, val, last[1], last[3])
                    elif calready != counted or by != calready + val - int(cmax) or by <= 0:
                        problem = "anticipated error arithmetic: already=%d (fields emitted in the region: %d) value=%d limit=%s by=%d" % (calready, counted, val, cmax, by)
                elif kind == "X":
                    viol, by = f[5], int(f[6])
                    if calready != counted or by <= 0 or by - max(0, calready - int(cmax)) > 8:
                        problem = "exceeded error arithmetic: already=%d (fields emitted in the region: %d) limit=%s by=%d" % (calready, counted, cmax, by)
                    elif any(e.split(" ")[1] == viol for e in ie if e.startswith("E ")):
                        problem = "the offending field %s was already emitted" % viol
                else:
                    if calready != counted or not (calready < int(cmax)):
                        problem = "subceeded error arithmetic: already=%d (fields emitted in the region: %d) limit=%s" % (calready, counted, cmax)
        if problem:
            flagged.add(k)
            R.violation("c03:" + problem.split(":")[0].split(",")[0][:48].replace(" ", "-"), "%s: %s" % (c[1], problem), replay_of(c, "1", impl[k], {"fault": c[3] if c[0].startswith("fault") else None}))
    R.coverage["size_errors_checked"] = dict(kinds)
    bad = correspondence(R, ctx, reqs, impl, model, what="events, outcome, every attribute of the size error (path, limit, counted, offender, by), remaining bytes")
    report_disagreements(R, ctx, reqs, impl, model, bad, flagged)
    distribution(R, cases, impl)


# ----------------------------------------------------------------------------- C09


@runner("C09")
def c09(R, ctx):
    C = Cases(R.rng, ctx["tier"])
    streams = C.regress("C09", "stream") + C.streams(n=60, maxpairs=4 if ctx["tier"] == "quick" else 8)
    reqs = ["stream9 " + ",".join(h(p) for p in s[3]["parts"]) for s in streams]
    res = common.run_impl("impl_worker", reqs)
    ok = 0
    for s, r, q in zip(streams, res, reqs):
        if r.startswith("OK"):
            ok += 1
        elif r.startswith("BAD"):
            R.violation("c09:" + r.split(" ")[1], "stream of %d messages does not decode as its messages one by one: %s" % (len(s[3]["parts"]), r[:300]),
                        {"parts_hex": [h(p) for p in s[3]["parts"]], "result": r, "how": "harness/impl_worker.py: " + q[:120] + "..."})
    R.coverage["streams_equal_to_individual_decodes"] = ok
    # warn mode: a response with a recoverable finding (out-of-range value, sessions contradicting the encryption
    # expectation) inside a stream is reported and decoding goes on, exactly as when the messages are decoded one by one
    wreqs, wmeta = [], []
    n_w = 12 if ctx["tier"] == "quick" else 60
    for it_ in range(n_w):
        c, ci, r, ri = C.G.pair()
        c2, ci2, r2, ri2 = C.G.pair()
        kind = ["padded-last", "padded", "mismatch", "value", "abandoned"][it_ % 5] if it_ < 10 else R.rng.choice(["value", "value", "mismatch", "padded", "padded-last", "abandoned"])
        if kind == "abandoned":
            # the command ends at a field boundary and its commandSize says so: it is abandoned in front of the next field
            # its command code requires (Exceeded), nothing of it is left in the input, and the response that follows
            # still belongs to it
            offs = sorted({10} | {off_ for (kd_, off_, w_, pn_, z_) in ci.get("faults", []) if 10 <= off_ < len(c)})
            if len(c) > 10:
                k_ = 10 if it_ < 10 else R.rng.choice(offs)
                cbad = c[:2] + k_.to_bytes(4, "big") + c[6:k_]
                parts = [cbad, r, c2, r2]
                wreqs.append("stream9w " + ",".join(h(p_) for p_ in parts))
                wmeta.append((kind, parts))
            continue
        if kind in ("padded", "padded-last"):
            # the size field of a message covers more bytes than its fields consume: reported (Subceeded), the padding
            # skipped - inside the stream exactly as on its own, also when it is the last message
            k_ = R.rng.choice([1, 2, 7])
            pad = bytes(R.rng.randrange(256) for _ in range(k_))
            rbad = r[:2] + (len(r) + k_).to_bytes(4, "big") + r[6:] + pad
            parts = [c2, r2, c, rbad] if kind == "padded-last" else [c, rbad, c2, r2]
            wreqs.append("stream9w " + ",".join(h(p_) for p_ in parts))
            wmeta.append((kind, parts))
            # the same with a failed (header-only) response, whose padding is self-contained whatever the command is
            rfail = (0x8001).to_bytes(2, "big") + (10 + k_).to_bytes(4, "big") + (0x101).to_bytes(4, "big") + pad
            parts = [c2, r2, c, rfail] if kind == "padded-last" else [c, rfail, c2, r2]
            wreqs.append("stream9w " + ",".join(h(p_) for p_ in parts))
            wmeta.append((kind + "-failed", parts))
            continue
        if kind == "value":
            vf = C.value_faults(("x", "R:%d:%d" % (ci["cc"], 1 if ci["rsp_enc"] else 0), r, ri), per=1)
            if not vf:
                continue
            rbad = vf[0][2]
        else:
            if ci["rsp_enc"]:
                rbad, _ = C.G.response(ci["cc"], enc=True, rc=0, sess_attrs=[0x01])
            else:
                rbad, _ = C.G.response(ci["cc"], enc=False, rc=0, sess_attrs=[0x41])
        parts = [c, rbad, c2, r2]
        wreqs.append("stream9w " + ",".join(h(p_) for p_ in parts))
        wmeta.append((kind, parts))
    wres = common.run_impl("impl_worker", wreqs)
    wok = 0
    for (kind, parts), r, q in zip(wmeta, wres, wreqs):
        if r.startswith("OK"):
            wok += 1
        elif r.startswith("BAD"):
            R.violation("c09:warn-" + r.split(" ")[1], "warn mode: stream with a %s finding in its first response does not decode as its messages one by one: %s" % (kind, r[:300]),
                        {"parts_hex": [h(p_) for p_ in parts], "result": r, "how": "harness/impl_worker.py: " + q[:120] + "..."})
    R.coverage["warn_mode_streams_equal_to_individual_decodes"] = wok
    R.coverage["warn_mode_stream_kinds"] = dict(Counter("%s:%s" % (k_, r_.split(" ")[0] if not r_.startswith("NA") else r_[:60]) for (k_, _p), r_ in zip(wmeta, wres)))
    r1, _ = engine(R, ctx, streams, modes=("1",))
    reqs1, impl1, model1 = r1["1"]
    bad = correspondence(R, ctx, reqs1, impl1, model1)
    report_disagreements(R, ctx, reqs1, impl1, model1, bad, set())
    distribution(R, streams, impl1)
    R.coverage["messages_per_stream"] = dict(Counter(len(s[3]["parts"]) for s in streams))


# ----------------------------------------------------------------------------- C11


@runner("C11", level="proof")
def c11(R, ctx):
    C = Cases(R.rng, ctx["tier"])
    cases = C.wellformed(per_type=1, per_cc=1, corpus_n=80)
    cases = [c for c in cases if c[1] != "S"]
    reqs = ["objs %s %s" % (c[1], h(c[2])) for c in cases]
    res = common.run_impl("impl_worker", reqs)
    ok = na = 0
    for c, r in zip(cases, res):
        if r.startswith("OK"):
            ok += 1
        elif r.startswith("NA"):
            na += 1
        else:
            sig = "c11:" + "-".join(r.split(" ")[1:2])
            R.violation(sig, "%s: %s" % (c[1], r[:300]), replay_of(c, "1", r, {"how": "harness/impl_worker.py: objs %s %s" % (c[1], h(c[2]))}))
    R.coverage["conversions_checked"] = ok
    R.coverage["not_accepted"] = na
    R.coverage["explanation"] = ("obj_to_events is modelled (Model/Object.v) and proved to reproduce the decoded events from the decoder's object; "
                                 "events_to_obj is modelled too (path trie and class lookup) and proved to rebuild the decoder's object from the decoded events; "
                                 "the conversions are also checked on the implementation "
                                 "(by-product == rebuilt, both back to the decoded events incl. value classes, re-encoding == input); the decoder's "
                                 "by-product object, obj_to_events of it and events_to_obj of the decoded events are compared with the Coq model's")
    oreqs = ["obj cur %s %s" % (c[1], h(c[2])) for c in cases]
    impl = common.run_impl("impl_worker", oreqs)
    model = common.run_model(oreqs) if ctx["driver_ok"] else impl
    bad = [k for k in range(len(oreqs)) if impl[k] != model[k]]
    R.coverage.update({"correspondence_cases": len(oreqs), "correspondence_disagreements": len(bad),
                       "correspondence_compares": "the decoder's by-product object (class identities, field names, values, None-ness)"})
    for k in bad:
        R.violation("correspondence:C11", "model and implementation build different objects for `%s`" % oreqs[k][:200],
                    {"request": oreqs[k], "implementation": impl[k][:2000], "model": model[k][:2000], "theorem": "correspondence by-product object"}, found_input=False)
        break
    # obj_to_events of the by-product object: Model/Object.v against common/object.py
    ereqs = ["objev cur %s %s" % (c[1], h(c[2])) for c in cases]
    eimpl = common.run_impl("impl_worker", ereqs)
    emodel = common.run_model(ereqs) if ctx["driver_ok"] else eimpl
    ebad = [k for k in range(len(ereqs)) if eimpl[k] != emodel[k]]
    R.coverage.update({"obj_to_events_cases": len(ereqs), "obj_to_events_disagreements": len(ebad),
                       "obj_to_events_nontrivial": sum(1 for x in eimpl if x.startswith("E ")),
                       "obj_to_events_compares": "every event obj_to_events yields for the returned object (path, declared type, value / Ellipsis), in order"})
    for k in ebad:
        # a concrete input on which the implementation's obj_to_events differs from the decoded events is a replay
        dec = common.run_impl("impl_worker", ["dec cur 1 %s %s" % (cases[k][1], h(cases[k][2]))])[0]
        decoded = ";".join(" ".join(x.split(" ")[:-1]) for x in dec.split(";")[:-1])
        found = dec.endswith("ACC") and decoded != eimpl[k]
        R.violation("c11:obj_to_events" if found else "correspondence:C11-objev",
                    ("obj_to_events of the decoder's object differs from the decoded events for `%s`" if found else
                     "model and implementation obj_to_events differ for `%s`") % ereqs[k][:200],
                    {"request": ereqs[k], "implementation": eimpl[k][:2000], "model": emodel[k][:2000], "decoded_events": decoded[:2000],
                     "theorem": "C11_returned_object_turns_back_into_the_decoded_events / correspondence obj_to_events"}, found_input=found)
        break
    # events_to_obj of the decoded events: Model/Object.v (path trie + class lookup) against common/object.py
    breqs = ["evobj cur %s %s" % (c[1], h(c[2])) for c in cases]
    bimpl = common.run_impl("impl_worker", breqs)
    bmodel = common.run_model(breqs) if ctx["driver_ok"] else bimpl
    bbad = [k for k in range(len(breqs)) if bimpl[k] != bmodel[k]]
    R.coverage.update({"events_to_obj_cases": len(breqs), "events_to_obj_disagreements": len(bbad),
                       "events_to_obj_nontrivial": sum(1 for x in bimpl if x not in ("None",) and not x.startswith("CRASH")),
                       "events_to_obj_compares": "the object events_to_obj rebuilds from the decoded events (class identities, field names, values, None-ness)"})
    for k in bbad:
        # the rebuilt object differing from the decoder's own object on a concrete accepted input is a replay
        found = impl[k] != "None" and bimpl[k] != impl[k]
        R.violation("c11:events_to_obj" if found else "correspondence:C11-evobj",
                    ("events_to_obj of the decoded events differs from the object the decoder returned for `%s`" if found else
                     "model and implementation events_to_obj differ for `%s`") % breqs[k][:200],
                    {"request": breqs[k], "implementation": bimpl[k][:2000], "model": bmodel[k][:2000], "decoder_object": impl[k][:2000],
                     "theorem": "C11_decoded_events_rebuild_the_returned_object / correspondence events_to_obj"}, found_input=found)
        break
    # many decodes first, all rebuilds afterwards (one process): the object rebuilt from a kept event list equals the kept
    # returned object whatever was decoded in between - in particular encrypted parameter areas of every command
    encs = [c for c in cases if c[0] in ("wf-command-decrypt", "wf-response-encrypted")]
    others = [c for c in cases if c[0] not in ("wf-command-decrypt", "wf-response-encrypted")]
    batches = []
    for _ in range(2 if ctx["tier"] == "quick" else 6):
        batches.append(R.rng.sample(encs, min(len(encs), 120)) + R.rng.sample(others, min(len(others), 40)))
    breqs_ = ["objsh " + ",".join("%s~%s" % (c[1], h(c[2])) for c in b_) for b_ in batches]
    bres_ = common.run_impl("impl_worker", breqs_)
    for b_, r, q in zip(batches, bres_, breqs_):
        if not r.startswith("OK"):
            k_ = int(r.split(" ")[2]) if r.split(" ")[2].isdigit() else 0
            R.violation("c11:kept-" + r.split(" ")[1], "%d inputs decoded one after the other, their event lists and returned objects kept, then rebuilt: %s (input %s)"
                        % (len(b_), r[:200], b_[k_][1]),
                        {"inputs": [{"root": c[1], "input_hex": h(c[2])} for c in b_], "result": r, "how": "harness/impl_worker.py: " + q[:120] + "..."})
    R.coverage["kept_then_rebuilt_batches"] = [len(b_) for b_ in batches]
    # the stream root: events_to_objs gives one object per message (also for a last command without its response),
    # each equal to the object built from that message on its own
    streams = C.streams(n=16, maxpairs=3)
    # ... also a long stream whose messages carry encrypted parameter areas of many different commands
    tb_ = ctx["tables"]
    first2b = [cc for cc, tkey in tb_["cmd_params"] if tb_["types"][tkey]["fields"] and tb_["types"][tkey]["fields"][0]["k"] == "plain"
               and "t" in tb_["types"][tkey]["fields"][0]["t"] and tb_["types"][tb_["types"][tkey]["fields"][0]["t"]["t"]]["k"].startswith("tpm2b")]
    parts_ = []
    for cc in R.rng.sample(first2b, min(len(first2b), 45)):
        c_, ci_ = C.G.command(cc, nsessions=1, decrypt=True, encrypt=True)
        r_, _ = C.G.response(cc, enc=True, rc=0)
        parts_ += [c_, r_]
    streams.append(("stream-many-encrypted", "S", b"".join(parts_), {"parts": parts_, "msgs": []}))
    sreqs = ["stream9 " + ",".join(h(p) for p in s[3]["parts"]) for s in streams]
    sres = common.run_impl("impl_worker", sreqs)
    sok = 0
    for s_, r, q in zip(streams, sres, sreqs):
        if r.startswith("OK"):
            sok += 1
        elif r.startswith("BAD") and ("object" in r or "events_to_objs" in r):
            R.violation("c11:stream-" + r.split(" ")[1], "events_to_objs on a stream of %d messages: %s" % (len(s_[3]["parts"]), r[:300]),
                        {"parts_hex": [h(p) for p in s_[3]["parts"]], "result": r, "how": "harness/impl_worker.py: " + q[:120] + "..."})
    R.coverage["stream_object_lists_checked"] = sok
    # events_to_objs of decoded streams: Model/Object.v (separate_events, pairing, events_to_obj) against common/object.py
    oreqs2 = ["sevobj cur %s" % h(s_[2]) for s_ in streams]
    oimpl2 = common.run_impl("impl_worker", oreqs2)
    omodel2 = common.run_model(oreqs2) if ctx["driver_ok"] else oimpl2
    obad2 = [k for k in range(len(oreqs2)) if oimpl2[k] != omodel2[k]]
    R.coverage.update({"events_to_objs_cases": len(oreqs2), "events_to_objs_disagreements": len(obad2),
                       "events_to_objs_nontrivial": sum(1 for x in oimpl2 if x not in ("None", "CRASH"))})
    for k in obad2:
        R.violation("correspondence:C11-sevobj", "model and implementation events_to_objs differ for `%s`" % oreqs2[k][:200],
                    {"request": oreqs2[k], "implementation": oimpl2[k][:2000], "model": omodel2[k][:2000],
                     "theorem": "C11_stream_events_rebuild_the_objects_of_its_messages / correspondence events_to_objs"}, found_input=False)
        break
    R.coverage["stream_messages"] = dict(Counter(len(s_[3]["parts"]) for s_ in streams))
    r1, _ = engine(R, ctx, cases, modes=("1",))
    distribution(R, cases, r1["1"][1])


# ----------------------------------------------------------------------------- C15


def render_hex(rng, b):
    out = bytearray()
    ws = [b" ", b"\n", b"\t", b"\r\n", b"", b"", b"", b"  ", b"\x0b", b"\x0c"]
    out += rng.choice(ws)
    for x in b:
        s = "%02x" % x
        if rng.random() < 0.4:
            s = s.upper()
        out += s[0].encode()
        if rng.random() < 0.1:
            out += rng.choice(ws)
        out += s[1].encode()
        if rng.random() < 0.35:
            out += rng.choice(ws)
    return bytes(out)


def render_swtpm(rng, parts, free="plain"):
    """parts: list of message byte strings (command, response, ...)"""
    out = bytearray()
    nl = b"\r\n" if rng.random() < 0.3 else b"\n"
    if free == "plain":
        out += rng.choice([b"", b"libtpms/tpm2 log\n", b"Data client disconnected\n", b"Ctrl Cmd: length 4\n00 00 00 10\nCtrl Rsp: length 4\n00 00 00 00\n"])
    elif free == "withS":
        out += rng.choice([b"Starting vTPM; SW version 0.7\n", b"SS", b"S SWTPM", b"SWTP\nSWTPM_I\n"])
    for i, m in enumerate(parts):
        out += b"SWTPM_IO_Read: length %d" % len(m) if i % 2 == 0 else b"SWTPM_IO_Write: length %d" % len(m)
        out += b"\n"
        for j in range(0, len(m), 16):
            out += b" ".join(b"%02X" % x for x in m[j:j + 16]) + rng.choice([b"", b" "]) + nl
        if rng.random() < 0.4:
            out += b"Ctrl Cmd: length 4" + nl + b"00 00 00 01" + nl + b"Ctrl Rsp: length 8" + nl + b"00 00 00 00 00 01 FF FF" + nl
    return bytes(out)


def small_strings(alphabet, maxlen):
    out = [b""]
    frontier = [b""]
    for _ in range(maxlen):
        frontier = [s + bytes([a]) for s in frontier for a in alphabet]
        out += frontier
    return out


@runner("C15")
def c15(R, ctx):
    C = Cases(R.rng, ctx["tier"])
    streams = C.streams(n=24, maxpairs=3)
    fe_reqs, fe_meta = [], []       # text machines: model vs implementation (bytes delivered, accepted?)
    ev_reqs, ev_ref, ev_meta = [], [], []   # front-end events vs Binary events on the carried bytes
    for s in streams:
        data, parts = s[2], s[3]["parts"]
        ht = render_hex(R.rng, data)
        fe_reqs.append("fe hex " + h(ht)); fe_meta.append(("hex", ht, data))
        ev_reqs.append("fevents hex 1 S " + h(ht)); ev_ref.append(data); ev_meta.append(("hex", ht))
        ev_reqs.append("fevents auto 1 S " + h(ht)); ev_ref.append(data); ev_meta.append(("auto-hex", ht))
        if R.rng.random() < 0.5:
            # hex text after a long run of whitespace (detection must keep looking for the first pair)
            ws = bytes(R.rng.choice(b" \t\n\r\x0b\x0c") for _ in range(R.rng.choice([13, 14, 15, 16, 17, 31, 40, 100])))
            if ws[:2] == b"\n\r":
                # LF CR is the two-byte pcapng magic: such a text is (by the documented detection) a capture, not hex;
                # that choice is covered by the "fe auto" comparison with the model below, not by this oracle
                ws = b" " + ws[1:]
            ht2 = ws + ht
            fe_reqs.append("fe auto " + h(ht2)); fe_meta.append(("auto-small", ht2, None))
            ev_reqs.append("fevents auto 1 S " + h(ht2)); ev_ref.append(data); ev_meta.append(("auto-hex", ht2))
        st = render_swtpm(R.rng, parts, R.rng.choice(["plain", "plain", "withS"]))
        fe_reqs.append("fe swtpm " + h(st)); fe_meta.append(("swtpm", st, data))
        ev_reqs.append("fevents swtpm 1 S " + h(st)); ev_ref.append(data); ev_meta.append(("swtpm", st))
        ev_reqs.append("fevents auto 1 S " + h(data)); ev_ref.append(data); ev_meta.append(("auto-binary", data))
        # pcapng: mssim trailer on responses, runts in between
        # also: packets cut short (size field beyond the payload: continued in the next segment / snaplen),
        # trailers of other lengths
        pl, carried = [], b""
        for i, m in enumerate(parts):
            if R.rng.random() < 0.25:
                pl.append(bytes(R.rng.randrange(256) for _ in range(R.rng.randrange(0, 10))))
            u = R.rng.random()
            if u < 0.2 and len(m) > 10:
                k = R.rng.randrange(10, len(m))
                pl.append(m[:k])
                if R.rng.random() < 0.5:
                    pl.append(m[k:])
            elif u < 0.3:
                pl.append(m + bytes(R.rng.randrange(256) for _ in range(R.rng.randrange(1, 13))))
            else:
                pl.append(m + (b"\x00\x00\x00\x00" if (i % 2 == 1 and R.rng.random() < 0.5) else b""))
        for q in pl:
            if len(q) >= 10:
                size = int.from_bytes(q[2:6], "big")
                carried += q[:size] if size < len(q) else q
        pls = ",".join(h(p) for p in pl)
        fe_reqs.append("fe pcap " + pls); fe_meta.append(("pcap", pls, carried))
        ev_reqs.append("fevents pcap 1 S " + pls); ev_ref.append(carried); ev_meta.append(("pcap", pls))
        ev_reqs.append("fevents autopcap 1 S " + pls); ev_ref.append(carried); ev_meta.append(("auto-pcap", pls))
        # two interfaces in one section (Ethernet and raw IP), the framing changing from packet to packet
        ev_reqs.append("fevents pcapmix 1 S " + pls); ev_ref.append(carried); ev_meta.append(("pcap-mixed", pls))
        # the same exchange twice in packets with identical headers (constant ports and sequence numbers)
        if len(parts) >= 2:
            twice = [parts[0], parts[1], parts[0], parts[1]]
            pls2 = ",".join(h(p_) for p_ in twice)
            fe_reqs.append("fe pcap " + pls2); fe_meta.append(("pcap", pls2, b"".join(twice)))
            ev_reqs.append("fevents pcapconst 1 S " + pls2); ev_ref.append(b"".join(twice)); ev_meta.append(("pcap-identical-headers", pls2))
        ev_reqs.append("fevents autopcapmix 1 S " + pls); ev_ref.append(carried); ev_meta.append(("auto-pcap-mixed", pls))
    # malformed text
    for _ in range(40):
        s = R.rng.choice(streams)[2][:R.rng.randrange(1, 30)]
        t = bytearray(render_hex(R.rng, s))
        op = R.rng.random()
        if op < 0.3 and t:
            t[R.rng.randrange(len(t))] = R.rng.choice(b"+-gGxX_.,#")
        elif op < 0.6:
            t += R.rng.choice([b"f", b"0 ", b"+f", b"-1", b"0x", b"1_"])
        else:
            t = t[:max(0, len(t) - 1)]
        fe_reqs.append("fe hex " + h(t)); fe_meta.append(("hex-malformed", bytes(t), None))
        ev_reqs.append("fevents hex 1 S " + h(t)); ev_ref.append(None); ev_meta.append(("hex-malformed", bytes(t)))
    # all short strings over small alphabets for the two text machines and the detector
    n = 3 if ctx["tier"] == "quick" else 5
    for t in small_strings(b"8aFg+ \n", n):
        fe_reqs.append("fe hex " + h(t)); fe_meta.append(("hex-small", t, None))
        fe_reqs.append("fe auto " + h(t)); fe_meta.append(("auto-small", t, None))
    for t in small_strings(b"SW8C t\nA", n):
        fe_reqs.append("fe swtpm " + h(t)); fe_meta.append(("swtpm-small", t, None))
    for pre in (b"SWTPM_IO\n", b"SWTPM_IO x\n8", b"xSWTPM_I", b"SSWTPM_IO\n", b"SWTPM_SWTPM_IO\n"):
        for t in small_strings(b"0A Ct\nS", 2 if ctx["tier"] == "quick" else 3):
            fe_reqs.append("fe swtpm " + h(pre + t)); fe_meta.append(("swtpm-small", pre + t, None))
    fimpl = common.run_impl("impl_worker", fe_reqs)
    fmodel = common.run_model(fe_reqs) if ctx["driver_ok"] else fimpl
    flagged = set()
    for k, (kind, text, carried) in enumerate(fe_meta):
        r = fimpl[k]
        if carried is not None:
            want = h(carried) + ("|1" if kind != "pcap" else "")
            if r != want:
                flagged.add(k)
                R.violation("c15:%s:bytes" % kind, "%s front-end delivers %s..., the container carries %s..." % (kind, r[:60], want[:60]),
                            {"kind": kind, "text_hex": text if isinstance(text, str) else h(text), "implementation": r, "expected": want,
                             "how": "harness/impl_worker.py: " + fe_reqs[k][:100]})
        elif kind == "hex-malformed" or kind == "hex-small":
            # independent oracle: accepted iff the non-whitespace characters are an even number of hex digits
            body = bytes(c for c in text if c not in b" \t\n\r\x0b\x0c")
            good = len(body) % 2 == 0 and all(c in b"0123456789abcdefABCDEF" for c in body)
            want = (h(bytes.fromhex(body.decode())) + "|1") if good else None
            if (good and r != want) or (not good and not r.endswith("|0")):
                flagged.add(k)
                R.violation("c15:hex:" + ("rejects-valid" if good else "accepts-invalid"), "hex text %r: front-end gives %s" % (text[:40], r[:80]),
                            {"kind": kind, "text_hex": h(text), "implementation": r, "expected": want or "<delivered bytes>|0 (ValueError)"})
        elif kind == "auto-small":
            body = bytes(c for c in text if c not in b" \t\n\r\x0b\x0c")
            if len(text) >= 2 and text[:2] != b"\n\r":
                want = "hex" if (len(body) >= 2 and all(c in b"0123456789abcdefABCDEF" for c in body[:2])) else "binary"
                if r != want:
                    flagged.add(k)
                    R.violation("c15:auto:detect", "auto-detection of %r says %s, expected %s" % (text, r, want), {"text_hex": h(text), "implementation": r})
    bad = [k for k in range(len(fe_reqs)) if fimpl[k] != fmodel[k]]
    # events through the front-ends
    eimpl = common.run_impl("impl_worker", ev_reqs)
    ref_reqs = ["dec cur 1 S " + h(b) for b in ev_ref if b is not None]
    ref = iter(common.run_impl("impl_worker", ref_reqs))
    for k, (kind, text) in enumerate(ev_meta):
        if ev_ref[k] is None:
            if not eimpl[k].endswith("VALUEERROR"):
                # malformed hex text must be rejected with ValueError (a text that happens to be well-formed is fine)
                body = bytes(c for c in text if c not in b" \t\n\r\x0b\x0c")
                good = len(body) % 2 == 0 and all(c in b"0123456789abcdefABCDEF" for c in body)
                if not good:
                    R.violation("c15:hex:not-rejected", "malformed hex text %r was not rejected with ValueError: %s" % (text[:40], eimpl[k][-80:]),
                                {"text_hex": h(text), "implementation": eimpl[k]})
            continue
        want = no_pulled(next(ref))
        if eimpl[k] != want:
            R.violation("c15:%s:events" % kind, "decoding through the %s front-end differs from decoding the carried bytes directly" % kind,
                        {"kind": kind, "container": text if isinstance(text, str) else h(text), "implementation": eimpl[k][-300:], "expected": want[-300:]})
    R.coverage.update({"correspondence_cases": len(fe_reqs), "correspondence_disagreements": len(bad),
                       "correspondence_compares": "bytes delivered by the hex / swtpm scanners and whether the text was rejected; detected format; trimmed pcap payloads",
                       "frontend_event_comparisons": len(ev_reqs),
                       "evaluations": len(fe_reqs) + len(ev_reqs), "distinct_nontrivial": len(set(fe_reqs)) + len(set(ev_reqs)),
                       "rule": "generated streams rendered as hex text (random case/whitespace between and inside pairs), swtpm logs (free text, Ctrl sections, CRLF), pcapng (IP and Ethernet encapsulation, mssim trailers, runts) and fed through Auto; malformed hex text; all strings up to length %d over small alphabets for the text machines and the detector; distinct = distinct requests" % n,
                       "distribution": dict(Counter(m[0] for m in fe_meta)),
                       "samples": [{"request": fe_reqs[0][:160], "implementation": fimpl[0][:80]}, {"request": fe_reqs[-1], "implementation": fimpl[-1]}]})
    for k in bad:
        if k not in flagged:
            R.violation("correspondence:C15", "model and implementation differ on `%s`: impl=%r model=%r" % (fe_reqs[k][:200], fimpl[k][:120], fmodel[k][:120]),
                        {"request": fe_reqs[k], "implementation": fimpl[k], "model": fmodel[k], "theorem": "correspondence Model/Frontends.v"}, found_input=False)
            break


# ----------------------------------------------------------------------------- C08


def tiling_check(ctx, inp, events, outcome):
    """warn mode: walks events and warnings; returns None or (signature-suffix, text)"""
    pos = 0
    msg_start = 0
    after = {}          # path -> offset just behind that field
    expect = None       # (offset, why) where the next field must start after a reported overrun / shortfall
    last_warn = None
    surplus = None
    for e in events:
        f = e.split(" ")
        if f[0] == "E":
            if f[3] == "...":
                if f[1] == "/":
                    msg_start = pos if expect is None else expect[0]
                continue
            w = prim_width(ctx, f[2])
            if w is None:
                return ("unknown-type", "event of unknown primitive type %s" % f[2])
            if expect is not None:
                if expect[0] < pos:
                    pass
                pos = expect[0]
                expect_why = expect[1]
                expect = None
            else:
                expect_why = None
            p = ctx["pinned"]["prims"][f[2]]
            chunk = inp[pos:pos + w]
            try:
                enc = int(f[3]).to_bytes(w, "big", signed=p["signed"])
            except OverflowError:
                enc = None
            if len(chunk) < w or chunk != enc:
                where = ("after-" + expect_why) if expect_why else ("after-warning-" + last_warn if last_warn else "plain")
                return ("field-bytes:" + where, "field %s=%s does not hold the input bytes at offset %d (%s)" % (f[1], f[3], pos, where))
            pos += w
            after[f[1]] = pos
        elif f[0] == "W":
            kind = f[1]
            last_warn = kind
            if kind in ("X", "U"):
                cpath, cmax = f[2], f[3]
                if cpath == "-" or cmax == "-":
                    return ("warning-without-region", e)
                start = msg_start if cpath in ("/.commandSize", "/.responseSize") else after.get(cpath)
                if start is None:
                    return ("warning-region-unknown", "warning names size field %s which was not shown" % cpath)
                end = start + int(cmax)
                cur = pos if expect is None else max(pos, expect[0])
                if end >= cur:
                    expect = (end, kind)
                # else: the declared end lies behind the bytes already shown (size smaller than the header
                # itself) or already skipped as the reported tail of an inner region whose own size field
                # contradicts this one: there is nothing to resume at, decoding continues in place
            elif kind == "S":
                surplus = b"" if f[2] == "-" else bytes.fromhex(f[2])
            elif kind == "D":
                pass
    if expect is not None:
        pos = max(pos, min(expect[0], len(inp)))
    if outcome == "ACC":
        depleted = any(e.startswith("W D") for e in events)
        if surplus is not None:
            if inp[pos:] != surplus:
                return ("surplus", "bytes listed as surplus %s differ from the bytes not shown %s" % (surplus.hex(), inp[pos:].hex()))
        elif not depleted and pos != len(inp):
            return ("bytes-unaccounted", "%d input bytes are neither shown, skipped as a reported region tail, nor listed as surplus" % (len(inp) - pos))
    return None


@runner("C08")
def c08(R, ctx):
    C = Cases(R.rng, ctx["tier"])
    base = C.wellformed(per_type=1, per_cc=1, corpus_n=50)
    cases = C.regress("C08")
    vcases = []
    for b in R.rng.sample(base, min(len(base), 420)):
        sf = C.size_faults(b, per=2)
        cases += sf
        vf = C.value_faults(b, per=2)
        vcases += vf
        # double faults
        if sf and vf and R.rng.random() < 0.3:
            x = sf[0]
            y = C.size_faults((x[0], x[1], x[2], b[3]), per=1)
            cases += y[:1]
    cases += C.arbitrary(n=250)
    cases += C.orphan_responses(n=24)
    allc = cases + vcases
    res, _ = engine(R, ctx, allc, modes=("0",))
    reqs, impl, model = res["0"]
    lenient = common.run_model(["lenient pin %s %s" % (c[1], h(c[2])) for c in vcases]) if ctx["driver_ok"] else None
    flagged = set()
    nvalue = 0
    for k, c in enumerate(allc):
        ie, io = split_result(no_pulled(impl[k]))
        sig = None
        if io.startswith("CRASH"):
            sig = ("crash:" + io[6:], "warn-mode decoding of %s aborted with an internal error: %s" % (c[1], io))
        elif io.startswith("RAISE"):
            f = io.split(" ")
            if not (f[1] == "V" and f[5] in ("cc", "sel", "nocc")):
                sig = ("raise:" + f[1], "warn-mode decoding of %s raised %s (only an unknown command code or an unselecting selector may raise)" % (c[1], io[:160]))
        elif io in ("DEP", "SUP") or io.startswith("DEP ") or io.startswith("SUP "):
            sig = ("raise:" + io[:3], "warn mode raised instead of warning: " + io)
        if sig is None and (c[1].startswith("T:") or c[1] in ("C",) or c[1].startswith("R:")) and not io.startswith("RAISE"):
            t = tiling_check(ctx, c[2], ie, io)
            if t:
                sig = ("tiling:" + t[0], "%s: %s" % (c[1], t[1]))
        if sig is None and k >= len(cases) and lenient is not None:
            # value faults only: lenient interpretation with one warning directly after each offending event
            le = lenient[k - len(cases)]
            warns = [e for e in ie if e.startswith("W ")]
            if le != "NOTWF" and io == "ACC" and warns and all(w.startswith("W V") for w in warns):
                nvalue += 1
                lev, _ = split_result(no_pulled(le))
                if [e for e in ie if not e.startswith("W ")] != lev:
                    sig = ("values-only:events", "%s: with value warnings only, the events differ from the lenient field-by-field interpretation" % c[1])
                else:
                    for j, e in enumerate(ie):
                        if e.startswith("W V"):
                            f = e.split(" ")
                            pe = ie[j - 1].split(" ") if j > 0 else [""]
                            if pe[0] != "E" or pe[1] != f[2] or pe[3] != f[4]:
                                sig = ("values-only:placement", "%s: warning %r does not directly follow its offending event" % (c[1], e))
                                break
        if sig:
            flagged.add(k)
            R.violation("c08:" + sig[0], sig[1], replay_of(c, "0", impl[k]))
    R.coverage["value_only_cases_checked"] = nvalue
    bad = correspondence(R, ctx, reqs, impl, model, what="warn mode: events, warnings with all attributes, pull counts, outcome")
    report_disagreements(R, ctx, reqs, impl, model, bad, flagged)
    distribution(R, allc, impl)


# ----------------------------------------------------------------------------- C14


def c14_oracle(ctx, inp, events, rows):
    """rows (parsed from the real output) against the events of the same decode"""
    # expected sequence of (kind, path-name, depth) for struct/prim/warning events; byte buffers fold their elements
    exp = []
    i = 0
    evs = [e for e in events]
    hexall = ""
    n = len(evs)
    while i < n:
        f = evs[i].split(" ")
        if f[0] == "W":
            exp.append(("W",))
            i += 1
            continue
        path = f[1]
        name = path.rsplit(".", 1)[-1] if path != "/" else ""
        depth = path.count(".") if path != "/" else 0
        if f[2].startswith("list:"):
            if f[2] == "list:BYTE":
                # fold children
                j = i + 1
                buf = ""
                while j < n:
                    g = evs[j].split(" ")
                    if g[0] == "W":
                        j += 1
                        continue
                    cp = g[1]
                    if cp.rsplit("[", 1)[0] == path and cp.endswith("]") and "." not in cp[len(path):]:
                        buf += "%02x" % (int(g[3]) & 0xFF)
                        j += 1
                    else:
                        break
                warns = sum(1 for k in range(i + 1, j) if evs[k].startswith("W"))
                exp.append(("F", "list[BYTE]", depth, name, buf or "-"))
                exp += [("W",)] * warns
                hexall += buf
                i = j
                continue
            exp.append(("L", "list[%s]" % f[2][5:], depth, name))   # optional row
            i += 1
            continue
        if f[3] == "...":
            exp.append(("F", f[2].replace("enc:", ""), depth, name, "-"))
        else:
            w = prim_width(ctx, f[2]) or 0
            p = ctx["pinned"]["prims"].get(f[2])
            hx = int(f[3]).to_bytes(w, "big", signed=bool(p and p["signed"])).hex() if w else "-"
            exp.append(("F", f[2], depth, name, hx))
            hexall += hx
        i += 1
    got = []
    ghex = ""
    for r in rows:
        c = r.split("|")
        if c[0] == "B":
            continue
        if c[0] == "W":
            got.append(("W",))
        elif c[0] == "F":
            got.append(("F", c[1], int(c[2]), c[3], c[4]))
            if c[4] != "-":
                ghex += c[4]
        else:
            return "unparsable row %r" % r[:60]
    if ghex != hexall:
        return "hex column %s... differs from the bytes of the decoded fields %s..." % (ghex[:40], hexall[:40])
    # match, treating list-parent rows as optional
    gi = 0
    for e in exp:
        if e[0] == "L":
            if gi < len(got) and got[gi][0] == "F" and got[gi][1] == e[1] and got[gi][2] == e[2] and got[gi][3] == e[3] and got[gi][4] == "-":
                gi += 1
            continue
        if gi >= len(got):
            return "no row for event %r" % (e,)
        if got[gi] != e:
            return "row %r where event %r was expected" % (got[gi], e)
        gi += 1
    if gi != len(got):
        return "extra row %r" % (got[gi],)
    return None


@runner("C14")
def c14(R, ctx):
    C = Cases(R.rng, ctx["tier"])
    base = C.wellformed(per_type=1, per_cc=1, corpus_n=40) + C.streams(n=8)
    if ctx["tier"] == "quick":
        base = R.rng.sample(base, min(len(base), 330))
    strict = list(base)
    warn = []
    for b in R.rng.sample(base, min(len(base), 260)):
        warn += C.size_faults(b, per=1) + C.value_faults(b, per=1)
    warn += C.arbitrary(n=120)
    allc = [(c, "1") for c in strict] + [(c, "0") for c in warn]
    reqs = ["pretty cur %s %s %s" % (m, c[1], h(c[2])) for c, m in allc]
    impl = common.run_impl("impl_worker", reqs)
    model = common.run_model(reqs) if ctx["driver_ok"] else impl
    dreqs = ["dec cur %s %s %s" % (m, c[1], h(c[2])) for c, m in allc]
    dimpl = common.run_impl("impl_worker", dreqs)
    flagged = set()
    attr_rows = 0
    for k, (c, m) in enumerate(allc):
        r = impl[k]
        if r.startswith("CRASH") or r.startswith("EVENTSPRINTER"):
            flagged.add(k)
            R.violation("c14:" + r.split(" ")[0].lower() + ":" + r.split(" ")[1], "printing the events of %s (%s mode) failed: %s" % (c[1], "strict" if m == "1" else "warn", r),
                        replay_of(c, m, r))
            continue
        rows = r.split("\x1e") if r else []
        attr_rows += sum(1 for x in rows if x.startswith("B|"))
        evs, out = split_result(no_pulled(dimpl[k]))
        problem = c14_oracle(ctx, c[2], evs, rows)
        # value column = text form: checked for primitive rows against format() through the model (correspondence)
        if problem:
            flagged.add(k)
            R.violation("c14:" + problem.split(" ")[0] + "-" + problem.split(" ")[1], "%s (%s mode): %s" % (c[1], "strict" if m == "1" else "warn", problem),
                        replay_of(c, m, dimpl[k], {"rows": rows[:400]}))
    bad = [k for k in range(len(reqs)) if impl[k] != model[k]]
    R.coverage.update({"correspondence_cases": len(reqs), "correspondence_disagreements": len(bad),
                       "correspondence_compares": "every row of the pretty printer: type, indentation, name, hex column, value column (text form / printable bytes), bit rows of attribute words and response codes, warning rows",
                       "bit_rows_seen": attr_rows})
    for k in bad:
        if k not in flagged:
            ir, mr = impl[k].split("\x1e"), model[k].split("\x1e")
            pos = next((j for j, (a, b) in enumerate(zip(ir, mr)) if a != b), min(len(ir), len(mr)))
            R.violation("correspondence:C14", "model and implementation print different rows for `%s` (row %d: impl=%r model=%r)"
                        % (reqs[k][:160], pos, ir[pos] if pos < len(ir) else None, mr[pos] if pos < len(mr) else None),
                        {"request": reqs[k], "implementation_rows": ir[:300], "model_rows": mr[:300], "theorem": "correspondence Model/Pretty.v"}, found_input=False)
            break
    distribution(R, [c for c, m in allc], dimpl)


# ----------------------------------------------------------------------------- C19


def run_cli(args, stdin=None, timeout=600):
    import subprocess
    env = common.impl_env()
    p = subprocess.run([common.PY, "-m", "tpmstream"] + args, env=env, cwd=common.WORK, input=stdin,
                       stdout=subprocess.PIPE, stderr=subprocess.PIPE, timeout=timeout)
    return p.returncode, p.stdout.decode("utf-8", "replace"), p.stderr.decode("utf-8", "replace")


@runner("C19", level="other")
def c19(R, ctx):
    import re as _re
    import tempfile
    ansi = _re.compile("\x1b\\[[0-9;]*m")
    C = Cases(R.rng, ctx["tier"])
    tmp = tempfile.mkdtemp(prefix="c19.", dir=common.WORK)
    files = []     # (label, fmt_in options, path)
    try:
        streams = C.streams(n=3, maxpairs=2)
        # one malformed stream so that warnings are printed too
        bad = C.size_faults(("wf", "C", streams[0][3]["parts"][0], {"faults": [("size", 2, 4, "UINT32", len(streams[0][3]["parts"][0]))]}), per=1)
        for k, s in enumerate(streams):
            data, parts = s[2], s[3]["parts"]
            for label, ins, content in (("bin", ["binary", "auto"], data), ("hex", ["hex", "auto"], render_hex(R.rng, data)),
                                        ("swtpm", ["swtpm-log"], render_swtpm(R.rng, parts))):
                path = os.path.join(tmp, "%s%d" % (label, k))
                open(path, "wb").write(content)
                files.append((label, ins, path))
        if bad:
            path = os.path.join(tmp, "badbin")
            open(path, "wb").write(bad[0][2])
            files.append(("bin", ["binary"], path))
        n_runs = 0
        reqs, meta = [], []
        for label, ins, path in files:
            for fi in ins:
                for fo in (("pretty", "events", "binary") if ctx["tier"] != "quick" else R.rng.sample(["pretty", "events", "binary"], 2)):
                    reqs.append("cliexp %s %s - - %s" % (fi, fo, path))
                    meta.append((["convert", "--in", fi, "--out", fo, path], path))
        # typed decodes
        typed = C.wellformed(per_type=0, per_cc=0, corpus_n=0)
        structs = [c for c in C.wellformed(per_type=1, per_cc=0, corpus_n=0) if c[0] == "wf-struct"]
        for c in R.rng.sample(structs, 4 if ctx["tier"] == "quick" else 25):
            tname = c[1].split(":")[2]
            path = os.path.join(tmp, "t_" + tname)
            open(path, "wb").write(c[2])
            fo = R.rng.choice(["pretty", "events", "binary"])
            reqs.append("cliexp binary %s %s - %s" % (fo, tname, path))
            meta.append((["convert", "--in", "binary", "--out", fo, "--type", tname, path], path))
        # files whose first / last bytes look like text line breaks or blanks (the reader must not strip them)
        edge = [("UINT16", b"\x00\x0a"), ("UINT16", b"\x0d\x0a"), ("UINT32", b"\x0a\x20\x09\x0d"), ("UINT16", b"\x20\x20"),
                ("TPM2B_DIGEST", b"\x00\x02\x0d\x0a"), ("UINT64", b"\x0a" * 8)]
        for k, (tname, content) in enumerate(edge if ctx["tier"] != "quick" else R.rng.sample(edge, 3)):
            path = os.path.join(tmp, "edge_%d" % k)
            open(path, "wb").write(content)
            fo = R.rng.choice(["pretty", "events", "binary"])
            reqs.append("cliexp binary %s %s - %s" % (fo, tname, path))
            meta.append((["convert", "--in", "binary", "--out", fo, "--type", tname, path], path))
        path = os.path.join(tmp, "edge_getrandom")
        open(path, "wb").write(bytes.fromhex("80010000000c0000017b000a"))
        for fi in ("binary", "auto"):
            fo = R.rng.choice(["pretty", "events", "binary"])
            reqs.append("cliexp %s %s - - %s" % (fi, fo, path))
            meta.append((["convert", "--in", fi, "--out", fo, path], path))
        ccnames = {m["v"]: m["name"] for m in ctx["tables"]["prims"]["TPM_CC"]["kind"]["ms"] if m["k"] == "const"}
        for _ in range(2 if ctx["tier"] == "quick" else 12):
            c, ci, r, ri = C.G.pair()
            if ci["rsp_enc"]:
                continue
            path = os.path.join(tmp, "rsp_%d" % ci["cc"])
            open(path, "wb").write(r)
            reqs.append("cliexp binary pretty Response %s %s" % (ccnames[ci["cc"]], path))
            meta.append((["convert", "--in", "binary", "--type", "Response", "--command", ccnames[ci["cc"]], path], path))
        # several input files: `convert` decodes the bytes of all of them as one input (a pair, a message, a hex digit
        # pair or a typed value may be split over files)
        multi = []
        for k, s in enumerate(streams):
            data, parts = s[2], s[3]["parts"]
            cutm = len(parts[0]) if len(parts) > 1 else len(data) // 2
            multi.append(("binary", "-", data, [cutm]))
            multi.append(("auto", "-", data, sorted({R.rng.randrange(1, len(data)), R.rng.randrange(1, len(data))})))
            ht_ = render_hex(R.rng, data)
            multi.append(("hex", "-", ht_, [R.rng.randrange(1, len(ht_))]))
        for c in R.rng.sample([c for c in structs if len(c[2]) >= 2], 2 if ctx["tier"] == "quick" else 10):
            multi.append(("binary", c[1].split(":")[2], c[2], [R.rng.randrange(1, len(c[2]))]))
        for k, (fi, tname_, content, cuts_) in enumerate(multi if ctx["tier"] != "quick" else R.rng.sample(multi, min(len(multi), 6))):
            pieces = [content[a:b] for a, b in zip([0] + cuts_, cuts_ + [len(content)])]
            paths = []
            for j, pc in enumerate(pieces):
                pp = os.path.join(tmp, "multi%d_%d" % (k, j))
                open(pp, "wb").write(pc)
                paths.append(pp)
            fo = R.rng.choice(["pretty", "events", "binary"])
            reqs.append("cliexp %s %s %s - %s" % (fi, fo, tname_, "+".join(paths)))
            meta.append((["convert", "--in", fi, "--out", fo] + (["--type", tname_] if tname_ != "-" else []) + paths, "+".join(paths)))
        R.coverage["convert_runs_with_several_files"] = len([m for m in meta if "+" in m[1]])

        def file_hex(pth):
            return h(b"".join(open(x, "rb").read() for x in pth.split("+")))
        exp = common.run_impl("impl_worker", reqs, nproc=4)
        for (args, path), e, q in zip(meta, exp, reqs):
            rc, out, err = run_cli(args)
            n_runs += 1
            status, _, body = e.partition("\x1e")
            want = body.replace("\x1f", "\n")
            got = ansi.sub("", out)
            if "--out" in args and args[args.index("--out") + 1] == "binary":
                got = got.rstrip("\n")
                want = want.rstrip("\n")
            if status == "0":
                if rc != 0 or got != want:
                    pos = next((j for j, (a, b) in enumerate(zip(got, want)) if a != b), min(len(got), len(want)))
                    R.violation("c19:convert:" + ("status" if rc != 0 else "output"),
                                "`tpmstream %s` exits %d and prints something else than the library produces for the same bytes (first difference at character %d: %r vs %r)"
                                % (" ".join(args[:-1]), rc, pos, got[pos:pos + 40], want[pos:pos + 40]),
                                {"argv": args, "file_hex": file_hex(path), "stdout": got[:3000], "expected": want[:3000], "stderr": err[-600:]})
            else:
                if rc == 0:
                    R.violation("c19:convert:hides-error", "`tpmstream %s` exits 0 although the library raises %s" % (" ".join(args[:-1]), status),
                                {"argv": args, "file_hex": file_hex(path), "stdout": got[:2000]})
        # refusals and the decision logic (model: Model/Cli.v)
        some = files[0][2]
        combos = [("i32", "-", "binary"), ("TPM2B_DIGEST", "-", "auto"), ("Response", "-", "binary"), ("Response", "GetRandomm", "binary"),
                  ("Response", "GetRandom", "binary"), ("-", "-", "auto"), ("TPMS_EMPTY", "-", "binary"), ("Command", "-", "binary"),
                  ("CommandResponseStream", "-", "auto"), ("response", "GetRandom", "binary"), ("TPM_CC", "Startup", "binary")]
        mreqs = ["cli %s %s %s" % c for c in combos]
        mres = common.run_model(mreqs) if ctx["driver_ok"] else None
        for k, (t, c, f) in enumerate(combos):
            args = ["convert", "--in", f] + (["--type", t] if t != "-" else []) + (["--command", c] if c != "-" else []) + [some]
            rc, out, err = run_cli(args)
            n_runs += 1
            if "Unknown type" in err or "Unknown commandCode" in err or "requires --command" in err:
                cls = "REFUSED"
            elif "RuntimeError" in err and "incompatible" in err:
                cls = "INCOMPATIBLE"
            else:
                cls = "DECODE"
            if cls == "REFUSED" and (rc == 0 or ("Did you mean" not in err and "requires --command" not in err) or out.strip()):
                R.violation("c19:refusal", "`tpmstream %s`: refusal must exit non-zero with a suggestion and decode nothing (status %d)" % (" ".join(args[:-1]), rc),
                            {"argv": args, "stdout": out[:500], "stderr": err[-800:]})
            if mres is not None and not mres[k].startswith(cls):
                want_refuse = t != "-" and (t not in ([x for x in ctx["tables"]["structures"]] + ["Command", "Response", "CommandResponseStream"]) or (t == "Response" and (c == "-" or c not in ccnames.values())))
                if want_refuse != (cls == "REFUSED"):
                    R.violation("c19:decision", "`tpmstream %s` is %s, the property requires %s" % (" ".join(args[:-1]), cls, "a refusal" if want_refuse else "a decode"),
                                {"argv": args, "stderr": err[-800:], "model": mres[k]})
                else:
                    R.violation("correspondence:C19", "Model/Cli.v says %s for `%s`, the command line does %s" % (mres[k], " ".join(args[:-1]), cls),
                                {"argv": args, "stderr": err[-800:], "model": mres[k], "theorem": "correspondence Model/Cli.v"}, found_input=False)
        # `type`
        tfiles = [f for f in files if f[0] == "bin"][:1 if ctx["tier"] == "quick" else 3]
        for c in R.rng.sample(structs, 1 if ctx["tier"] == "quick" else 4):
            path = os.path.join(tmp, "ty_" + c[1].split(":")[2])
            open(path, "wb").write(c[2])
            tfiles.append(("bin", ["binary"], path))
        tfiles.append(("bin", ["binary"], os.path.join(tmp, "edge_getrandom")))
        # successful responses that consist of one handle (every handle range), with and without a session area
        for k_, hv in enumerate([0x02000000, 0x03000001, 0x80000001, 0x81000001, 0x40000007, 0x40000001, 0x01000000] if ctx["tier"] != "quick"
                                else [0x02000000, 0x81000001]):
            blob = bytes.fromhex("80010000000e00000000") + hv.to_bytes(4, "big")
            path = os.path.join(tmp, "rsph%d" % k_)
            open(path, "wb").write(blob)
            tfiles.append(("bin", ["binary"], path))
        # very short files: a handle, an algorithm id, a single byte, nothing
        for k_, blob in enumerate([bytes.fromhex("40000001"), bytes.fromhex("000b"), b"\x01", b"", bytes.fromhex("0000000100")]):
            path = os.path.join(tmp, "short%d" % k_)
            open(path, "wb").write(blob)
            tfiles.append(("bin", ["binary"], path))
        # the same files as hex text (whitespace between and inside pairs), read with --in hex
        tjobs = [("binary", f[2]) for f in tfiles]
        for f in tfiles[:(1 if ctx["tier"] == "quick" else 4)] + tfiles[-1:]:
            hp = f[2] + ".hex"
            raw = open(f[2], "rb").read()
            ht = render_hex(R.rng, raw)
            i0 = next((i for i, ch in enumerate(ht) if ch in b"0123456789abcdefABCDEF"), None)
            if i0 is not None and R.rng.random() < 0.7:
                ht = ht[:i0 + 1] + R.rng.choice([b"\n", b" ", b"\r\n", b"\t"]) + ht[i0 + 1:]     # the first pair is split
            open(hp, "wb").write(ht)
            tjobs.append(("hex", hp))
        texp = common.run_impl("impl_worker", ["typeexp %s %s" % j for j in tjobs], nproc=4)
        for (fmt, fpath), e in zip(tjobs, texp):
            rc, out, err = run_cli(["type", "--in", fmt, fpath])
            n_runs += 1
            got = [l for l in out.split("\n") if l.strip()]
            want = [x for x in e.split("\x1f") if x]
            if rc not in (0, None) or got != want:
                R.violation("c19:type", "`tpmstream type --in %s` lists %d entries, strict decoding succeeds under %d types (first difference: %r)"
                            % (fmt, len(got), len(want), sorted(set(got) ^ set(want))[:3]),
                            {"argv": ["type", "--in", fmt, fpath], "file_hex": h(open(fpath, "rb").read()), "stdout": got[:100], "expected": want[:100], "stderr": err[-500:]})
        # `example X`
        names = sorted(ccnames.values()) + (["TPM2B_DIGEST"] if ctx["tier"] == "quick" else ["TPM2B_DIGEST", "TPMT_PUBLIC", "TPMA_SESSION"])
        blocks_checked = 0
        from concurrent.futures import ThreadPoolExecutor
        with ThreadPoolExecutor(max_workers=12) as ex_:
            ex_results = list(ex_.map(lambda nm_: run_cli(["example", nm_]), names))
        redecode_budget = set(R.rng.sample(names, 3 if ctx["tier"] == "quick" else 25))
        msg_blocks = []
        for nm, (rc, out, err) in zip(names, ex_results):
            n_runs += 1
            if rc != 0:
                R.violation("c19:example:status", "`tpmstream example %s` exits %d" % (nm, rc), {"argv": ["example", nm], "stderr": err[-800:]})
                continue
            text = ansi.sub("", out)
            for block in [b for b in text.split("\n\n") if b.strip()]:
                lines = block.strip("\n").split("\n")
                head, _, hexs = lines[0].partition(":")
                data = bytes.fromhex(hexs.replace(" ", ""))
                blocks_checked += 1
                if nm in ccnames.values():
                    cc = [k for k, v in ccnames.items() if v == nm][0]
                    if head == "Command" and int.from_bytes(data[6:10], "big") != cc:
                        R.violation("c19:example:filter", "`tpmstream example %s` prints a command with another command code" % nm, {"argv": ["example", nm], "block": block[:600]})
                    if head not in ("Command", "Response"):
                        R.violation("c19:example:filter", "`tpmstream example %s` prints a %s" % (nm, head), {"argv": ["example", nm], "block": block[:600]})
                    root = "C" if head == "Command" else "R:%d:0" % cc
                else:
                    if head != nm:
                        R.violation("c19:example:filter", "`tpmstream example %s` prints a %s" % (nm, head), {"argv": ["example", nm], "block": block[:600]})
                    root = "T:S:%s" % nm
                if head in ("Command", "Response") and nm in ccnames.values():
                    if "TPM2B_ENCRYPTED_PARAM" not in block:
                        msg_blocks.append((nm, head, data, "C" if head == "Command" else "R:%d:0" % [k for k, v in ccnames.items() if v == nm][0]))
                    # what is printed as a message of this command is one: a command carries the code in its header, a
                    # response is at least a header
                    if len(data) < 10 or (head == "Command" and int.from_bytes(data[2:6], "big") != len(data)):
                        R.violation("c19:example:filter", "`tpmstream example %s` prints a %s that is not a whole message" % (nm, head), {"argv": ["example", nm], "block": block[:600]})
                if nm in redecode_budget and blocks_checked <= (12 if ctx["tier"] == "quick" else 200):
                    # each printed example re-decodes to what is shown
                    pr = common.run_impl("impl_worker", ["pretty cur 0 %s %s" % (root, h(data))])[0]
                    shown = [l for l in lines[1:] if l.strip()]
                    # examples are printed from the stored object, i.e. without the warnings a fresh decode of an
                    # out-of-range corpus value adds: warning rows are not part of "what is shown"
                    n_rows = len([x for x in pr.split("\x1e") if x and not x.startswith("W")]) if pr else 0
                    if pr.startswith("CRASH") or n_rows != len(shown):
                        # encrypted parameters are shown with the encrypted layout; re-decode cannot know: skip those
                        if "TPM2B_ENCRYPTED_PARAM" not in block:
                            R.violation("c19:example:redecode", "`tpmstream example %s`: an example does not re-decode to what is shown (%d rows vs %d lines)" % (nm, n_rows, len(shown)),
                                        {"argv": ["example", nm], "block": block[:1500], "redecode": pr[:1500]})
        # every block printed as a command / response of the requested command has the length its size field says (what
        # the bundled captures hold are whole messages; encrypted parameter areas cannot be judged without the sessions)
        mres = common.run_impl("impl_worker", ["dec cur 0 %s %s" % (root_, h(data_)) for (_n, _h, data_, root_) in msg_blocks]) if msg_blocks else []
        for (nm_, head_, data_, root_), r_ in zip(msg_blocks, mres):
            evs_, out_ = split_result(no_pulled(r_))
            sizeprob = [e_ for e_ in evs_ if e_.startswith(("W D", "W S", "W X", "W A", "W U"))]
            if sizeprob:
                R.violation("c19:example:filter", "`tpmstream example %s` prints as a %s something that is not a whole message of that command (%s)" % (nm_, head_, sizeprob[0][:80]),
                            {"argv": ["example", nm_], "block_hex": h(data_), "decoded": r_[-600:]})
        R.coverage["example_messages_checked"] = len(msg_blocks)
        R.coverage.update({"explanation": "differential runs of `python -m tpmstream` (convert in every input/output format incl. malformed input, --type/--command, refusals, type, example) against in-process library calls on the same files; the refusal decision additionally against the proved Model/Cli.v",
                           "evaluations": n_runs, "distinct_nontrivial": n_runs, "example_blocks_checked": blocks_checked,
                           "rule": "one evaluation = one process of the command line; all are distinct invocations",
                           "samples": [{"argv": meta[0][0]}, {"argv": ["example", names[0]]}]})
    finally:
        import shutil
        shutil.rmtree(tmp, ignore_errors=True)
