"""Shared machinery of ./check: regenerate tables, build Coq + the extracted model, run the
implementation workers, report violations, write evidence."""
import fcntl
import hashlib
import json
import os
import random
import re
import shutil
import subprocess
import sys
import time

VERIF = os.path.dirname(os.path.dirname(os.path.abspath(__file__)))
REPO = os.environ.get("VERIF_REPO", "/repo")
COQ = os.path.join(VERIF, "coq")
WORK = os.path.join(VERIF, ".work")
PY = "/venv/bin/python"
NPROC = min(16, os.cpu_count() or 4)
GUARD = "TPMSTREAM_VERIF"

STD_AXIOMS_OK = {
    # axioms declared by Coq's standard library that a theorem may depend on (named in DESIGN.md section 6)
    "functional_extensionality_dep",
    "Eqdep.Eq_rect_eq.eq_rect_eq",
    "Coq.Logic.Eqdep.Eq_rect_eq.eq_rect_eq",
}


def impl_env():
    env = dict(os.environ)
    env["PYTHONPATH"] = os.path.join(REPO, "src") + os.pathsep + os.path.join(VERIF, "harness")
    env["PYTHONHASHSEED"] = "0"
    env[GUARD] = "1"
    env["PYTHONDONTWRITEBYTECODE"] = "1"
    return env


def sh(cmd, timeout=None, cwd=None, env=None, input=None):
    p = subprocess.run(cmd, cwd=cwd, env=env, input=input, stdout=subprocess.PIPE, stderr=subprocess.STDOUT,
                       timeout=timeout, text=True)
    return p.returncode, p.stdout


class Lock:
    def __init__(self, name="build"):
        os.makedirs(WORK, exist_ok=True)
        self.path = os.path.join(WORK, name + ".lock")

    def __enter__(self):
        self.f = open(self.path, "w")
        fcntl.flock(self.f, fcntl.LOCK_EX)
        return self

    def __exit__(self, *a):
        fcntl.flock(self.f, fcntl.LOCK_UN)
        self.f.close()


def write_if_changed(path, text):
    try:
        with open(path) as f:
            if f.read() == text:
                return False
    except FileNotFoundError:
        pass
    tmp = path + ".tmp%d" % os.getpid()
    with open(tmp, "w") as f:
        f.write(text)
    os.replace(tmp, path)
    return True


# ----------------------------------------------------------------------------- tables


AUDIT = None


def regenerate_tables():
    """Runs the translator against /repo's working tree. Returns (ok, message, tables_dict|None)."""
    os.makedirs(WORK, exist_ok=True)
    out = os.path.join(WORK, "tables.%d.json" % os.getpid())
    rc, log = sh([PY, os.path.join(VERIF, "gen", "translate.py"), "extract", out], env=impl_env(), timeout=300,
                 cwd=VERIF)
    if rc != 0:
        return False, log, None
    with open(out) as f:
        data = json.load(f)
    os.remove(out)
    sys.path.insert(0, os.path.join(VERIF, "gen"))
    import translate

    try:
        text = translate.emit(data, "Tables")
    except translate.Untranslatable as e:
        return False, "Untranslatable: %s" % e, None
    write_if_changed(os.path.join(COQ, "gen", "Tables.v"), text)
    write_if_changed(os.path.join(WORK, "tables.json"), json.dumps(data, indent=1, sort_keys=True))
    # the source audit (shared state carriers) -> gen/Audit.v; kept out of the tables so that the pin comparison of the
    # layout is not affected
    findings = translate.audit_sources(os.path.join(REPO, "src", "tpmstream"))
    write_if_changed(os.path.join(COQ, "gen", "Audit.v"), translate.emit_audit(findings))
    global AUDIT
    AUDIT = findings
    return True, "", data


def pinned_tables():
    with open(os.path.join(VERIF, "gen", "pinned.json")) as f:
        return json.load(f)


# ----------------------------------------------------------------------------- build


def coq_files():
    out = []
    with open(os.path.join(COQ, "_CoqProject")) as f:
        for line in f:
            line = line.strip()
            if line.endswith(".v"):
                out.append(line)
    return out


FORBIDDEN = re.compile(
    r"\b(Admitted|admit|Axiom|Axioms|Parameter|Parameters|Conjecture|Hypothesis|Variable|Variables|Hypotheses)\b|Unset\s+Guard|bypass_check|type-in-type|impredicative-set|Admit\s+Obligations|Unset\s+Universe\s+Checking|Unset\s+Positivity")


def scan_sources():
    """No Admitted/Axiom/... anywhere (Variable/Hypothesis are allowed only inside Sections)."""
    bad = []
    for rel in coq_files():
        path = os.path.join(COQ, rel)
        if not os.path.exists(path):
            continue
        depth = 0
        with open(path) as f:
            text = f.read()
        # strip comments (non-nested good enough: we do not nest)
        text_nc = re.sub(r"\(\*.*?\*\)", " ", text, flags=re.S)
        text_nc = re.sub(r'"[^"\n]*"', '""', text_nc)  # string literals
        for ln, line in enumerate(text_nc.split("\n"), 1):
            if re.match(r"\s*Section\b", line):
                depth += 1
            if re.match(r"\s*End\b", line) and depth > 0:
                depth -= 1
            for m in FORBIDDEN.finditer(line):
                w = m.group(0)
                if w.split()[0] in ("Variable", "Variables", "Hypothesis", "Hypotheses") and depth > 0:
                    continue
                bad.append("%s:%d: %s" % (rel, ln, w))
    with open(os.path.join(COQ, "_CoqProject")) as f:
        if re.search(r"type-in-type|impredicative-set|-vos|-vok", f.read()):
            bad.append("_CoqProject: forbidden flag")
    return bad


def build(targets=None, timeout=3000):
    """make the .vo files (full build, never -vos). Returns (ok, log, failed_files)."""
    with Lock("build"):
        if not os.path.exists(os.path.join(COQ, "Makefile")) or os.path.getmtime(os.path.join(COQ, "Makefile")) < os.path.getmtime(os.path.join(COQ, "_CoqProject")):
            rc, log = sh(["coq_makefile", "-f", "_CoqProject", "-o", "Makefile"], cwd=COQ, timeout=120)
            if rc != 0:
                return False, log, ["_CoqProject"]
        cmd = ["timeout", str(timeout), "make", "-k", "-j%d" % NPROC]
        if targets:
            cmd += [t[:-2] + ".vo" if t.endswith(".v") else t for t in targets]
        rc, log = sh(cmd, cwd=COQ, timeout=timeout + 60)
        failed = []
        for m in re.finditer(r'File "\./([^"]+)", line (\d+)', log):
            if m.group(1) not in failed:
                failed.append(m.group(1))
        for m in re.finditer(r"\*\*\* \[[^\]]*?([A-Za-z0-9_/]+\.vo)\]", log):
            v = m.group(1)[:-1]
            if v not in failed:
                failed.append(v)
        return rc == 0, log, failed


def assumptions_of(prop_file):
    """Re-runs coqc on Properties/Cxx.v (cheap) to capture the Print Assumptions output.
    Returns dict theorem-ish-index -> list of axioms, plus raw text."""
    rc, log = sh(["timeout", "600", "coqc", "-Q", ".", "TV", prop_file], cwd=COQ, timeout=700)
    closed = log.count("Closed under the global context")
    axioms = []
    for block in re.findall(r"Axioms:\n((?:.+\n?)+?)(?:\n|$)", log):
        for line in block.split("\n"):
            m = re.match(r"^(\S+)\s*:", line)
            if m:
                axioms.append(m.group(1))
    return rc, closed, sorted(set(axioms)), log


def build_driver():
    """Extracted model + driver -> ocaml/_build/driver. Rebuilt when the extracted source changes."""
    with Lock("build"):
        src = os.path.join(COQ, "Extract", "model.ml")
        bdir = os.path.join(VERIF, "ocaml", "_build")
        os.makedirs(bdir, exist_ok=True)
        exe = os.path.join(bdir, "driver")
        if not os.path.exists(src):
            return False, "no extracted model (coq/Extract/model.ml missing)"
        h = hashlib.sha256()
        for p in (src, os.path.join(COQ, "Extract", "model.mli"), os.path.join(VERIF, "ocaml", "driver.ml")):
            with open(p, "rb") as f:
                h.update(f.read())
        stamp = os.path.join(bdir, "stamp")
        if os.path.exists(exe) and os.path.exists(stamp) and open(stamp).read() == h.hexdigest():
            return True, "cached"
        for p in (src, os.path.join(COQ, "Extract", "model.mli"), os.path.join(VERIF, "ocaml", "driver.ml")):
            shutil.copy(p, bdir)
        rc, log = sh(["timeout", "600", "ocamlfind", "ocamlopt", "-O3" if False else "-inline", "100", "-w", "-a", "-package", "str", "-linkpkg",
                      "model.mli", "model.ml", "driver.ml", "-o", "driver"], cwd=bdir, timeout=700)
        if rc != 0:
            return False, log
        with open(stamp, "w") as f:
            f.write(h.hexdigest())
        return True, log


def run_model(lines, timeout=3000):
    """Feeds request lines to the extracted model; returns the list of response lines (one per request)."""
    exe = os.path.join(VERIF, "ocaml", "_build", "driver")
    chunks = [lines[i::NPROC] for i in range(NPROC)] if len(lines) > 64 else [lines]
    procs = []
    for ch in chunks:
        p = subprocess.Popen([exe], stdin=subprocess.PIPE, stdout=subprocess.PIPE, text=True)
        procs.append((p, ch))
    import threading

    outs = [None] * len(procs)

    def work(i, p, ch):
        out, _ = p.communicate("\n".join(ch) + "\n")
        outs[i] = out.split("\n")
        if outs[i] and outs[i][-1] == "":
            outs[i].pop()

    ths = [threading.Thread(target=work, args=(i, p, ch)) for i, (p, ch) in enumerate(procs)]
    for t in ths:
        t.start()
    for t in ths:
        t.join(timeout)
    res = [None] * len(lines)
    if len(chunks) == 1:
        o = outs[0]
        if len(o) != len(lines):
            raise RuntimeError("model driver returned %d lines for %d requests: %r" % (len(o), len(lines), o[-3:]))
        return o
    for i, o in enumerate(outs):
        if o is None or len(o) != len(chunks[i]):
            raise RuntimeError("model driver returned %s lines for %d requests" % (None if o is None else len(o), len(chunks[i])))
        for j, line in enumerate(o):
            res[i + j * NPROC] = line
    return res


def run_impl(worker, lines, timeout=3000, nproc=None):
    """Feeds request lines to harness/<worker>.py running on /repo's sources (fresh interpreters)."""
    nproc = nproc or NPROC
    chunks = [lines[i::nproc] for i in range(nproc)] if len(lines) > 64 else [lines]
    procs = []
    for ch in chunks:
        p = subprocess.Popen([PY, os.path.join(VERIF, "harness", worker + ".py")], stdin=subprocess.PIPE,
                             stdout=subprocess.PIPE, stderr=subprocess.PIPE, text=True, env=impl_env(), cwd=WORK)
        procs.append((p, ch))
    import threading

    outs = [None] * len(procs)
    errs = [None] * len(procs)

    def work(i, p, ch):
        out, err = p.communicate("\n".join(ch) + "\n")
        errs[i] = (p.returncode, err)
        outs[i] = out.split("\n")
        if outs[i] and outs[i][-1] == "":
            outs[i].pop()

    ths = [threading.Thread(target=work, args=(i, p, ch)) for i, (p, ch) in enumerate(procs)]
    for t in ths:
        t.start()
    for t in ths:
        t.join(timeout)
    n = len(chunks)
    res = [None] * len(lines)
    for i, o in enumerate(outs):
        if o is None or len(o) != len(chunks[i]):
            raise ImplWorkerError("implementation worker %s failed (rc=%s): %s" % (worker, errs[i][0] if errs[i] else None, (errs[i][1] if errs[i] else "")[-2000:]))
        for j, line in enumerate(o):
            res[i + j * n if n > 1 else j] = line
    return res


class ImplWorkerError(Exception):
    pass


# ----------------------------------------------------------------------------- reporting


def known_findings():
    p = os.path.join(VERIF, "known_findings.json")
    with open(p) as f:
        return json.load(f)


class Run:
    """One run of one property's check."""

    def __init__(self, pid, tier, seed):
        self.pid = pid
        self.tier = tier
        self.seed = seed
        self.t0 = time.time()
        self.rng = random.Random(seed * 1000003 + int(pid[1:]))
        self.violations = []  # (signature, description, replay dict)
        self.known_hits = {}
        self.notes = []
        self.coverage = {}
        self.obligations = []  # (name, ok)
        self.trusted = []
        self.kf = [k for k in known_findings().get("findings", []) if k.get("property") == pid and k.get("status") == "open"]
        os.makedirs(os.path.join(VERIF, "replays"), exist_ok=True)

    def violation(self, signature, what, replay, found_input=True):
        for k in self.kf:
            if k["signature"] == signature:
                self.known_hits.setdefault(signature, (k, what))
                return
        self.violations.append((signature, what, replay, found_input))

    def finish(self, level="proof", extra_cov=None, assumptions=None, checker_cmd=None):
        for sig, (k, what) in self.known_hits.items():
            print("KNOWN-FINDING: property=%s %s" % (self.pid, k["what"]))
        cov = dict(self.coverage)
        if extra_cov:
            cov.update(extra_cov)
        obligations = len(self.obligations)
        discharged = sum(1 for _, ok in self.obligations if ok)
        cov.setdefault("obligations", obligations)
        cov.setdefault("discharged", discharged)
        cov.setdefault("obligation_names", [n for n, _ in self.obligations])
        cov.setdefault("checker_cmd", checker_cmd or "make -C /verif/coq (coqc 8.16.1, full .vo build) ; coqc Properties/%s.v for Print Assumptions" % self.pid)
        cov.setdefault("trusted_base", self.trusted)
        ev = {
            "property_id": self.pid,
            "tier": self.tier,
            "seed": self.seed,
            "level": level,
            "coverage": cov,
            "assumptions": assumptions or [],
            "wall_s": round(time.time() - self.t0, 2),
            "violations": len(self.violations),
            "known_findings_hit": sorted(self.known_hits),
            "notes": self.notes,
        }
        os.makedirs(os.path.join(VERIF, "evidence"), exist_ok=True)
        with open(os.path.join(VERIF, "evidence", self.pid + ".json"), "w") as f:
            json.dump(ev, f, indent=1, sort_keys=True, default=str)
        if self.violations:
            seen = set()
            for sig, what, replay, found in self.violations:
                if sig in seen:
                    continue
                seen.add(sig)
                name = "run-%s-%s.json" % (self.pid, hashlib.sha1(sig.encode()).hexdigest()[:10])
                path = os.path.join(VERIF, "replays", name)
                with open(path, "w") as f:
                    json.dump({"property": self.pid, "signature": sig, "what": what, "replay": replay}, f, indent=1, default=str)
                print("VIOLATION property=%s replay=%s%s" % (self.pid, path, "" if found else " no-failing-input-found"))
                print("  " + what[:400])
                if len(seen) >= 8:
                    break
            return 1
        return 0


def hexs(b):
    return bytes(b).hex()
