"""Input generators for the correspondence / oracle runs (untrusted: they only decide coverage;
what is well-formed and what the expected result is comes from the extracted Coq functions).

Table-directed over gen/pinned.json (the pinned TPM 2.0 layout)."""
import random


class Gen:
    def __init__(self, tables, rng):
        self.T = tables
        self.rng = rng
        self.prims = tables["prims"]
        self.types = tables["types"]
        self.cmd_h = dict((k, v) for k, v in tables["cmd_handles"])
        self.cmd_p = dict((k, v) for k, v in tables["cmd_params"])
        self.rsp_h = dict((k, v) for k, v in tables["rsp_handles"])
        self.rsp_p = dict((k, v) for k, v in tables["rsp_params"])
        self.ccs = sorted(self.cmd_h)
        self.stats = {"arms": set(), "types": set(), "sizes": []}
        self.faults = []  # recorded positions of size fields / constrained leaves: (kind, offset, width, info)

    # ---- primitives
    def valid_values(self, pname, limit=40):
        """a sample of valid values of a primitive (boundaries of every item)"""
        p = self.prims[pname]
        out = []
        for it in p["valid"]:
            k = it["k"]
            if k in ("vrange", "vnamed"):
                lo, hi = it["lo"], it["hi"] - 1
                if lo <= hi:
                    out += [lo, hi, (lo + hi) // 2]
            elif k in ("vmember", "vint"):
                out.append(it["v"])
            elif k == "venum":
                for m in it["ms"]:
                    if m["k"] == "const":
                        out.append(m["v"])
                    elif m["lo"] < m["hi"]:
                        out += [m["lo"], m["hi"] - 1]
        return out

    def is_valid(self, pname, z):
        p = self.prims[pname]
        for it in p["valid"]:
            k = it["k"]
            if k in ("vrange", "vnamed"):
                if it["lo"] <= z < it["hi"]:
                    return True
            elif k in ("vmember", "vint"):
                if it["v"] == z:
                    return True
            else:
                for m in it["ms"]:
                    if m["k"] == "const":
                        if m["v"] == z:
                            return True
                    elif m["lo"] <= z < m["hi"]:
                        return True
        return False

    def pick_valid(self, pname):
        p = self.prims[pname]
        vs = self.valid_values(pname)
        w = p["width"]
        lo, hi = (-(1 << (8 * w - 1)), (1 << (8 * w - 1)) - 1) if p["signed"] else (0, (1 << (8 * w)) - 1)
        vs = [v for v in vs if lo <= v <= hi]
        if not vs:
            return 0
        if self.rng.random() < 0.3:
            # random member of a random range item
            rs = [it for it in p["valid"] if it["k"] in ("vrange", "vnamed") and it["lo"] < it["hi"]]
            if rs:
                it = self.rng.choice(rs)
                return self.rng.randrange(max(it["lo"], lo), min(it["hi"] - 1, hi) + 1)
        return self.rng.choice(vs)

    def enc_prim(self, pname, z):
        p = self.prims[pname]
        return int(z).to_bytes(p["width"], "big", signed=p["signed"])

    def small_count(self):
        return self.rng.choice([0, 0, 1, 1, 2, 3, self.rng.randrange(0, 6)])

    def buf_size(self):
        r = self.rng.random()
        if r < 0.25:
            return 0
        if r < 0.5:
            return 1
        if r < 0.9:
            return self.rng.randrange(2, 40)
        return self.rng.randrange(40, 600)

    # ---- structures
    def gen_ref(self, ref, out, sel=None, depth=0):
        if "p" in ref:
            z = self.pick_valid(ref["p"])
            self.leaf(out, ref["p"], z)
            return z
        return self.gen_type(ref["t"], out, sel=sel, depth=depth)

    def leaf(self, out, pname, z, kind="leaf"):
        self.faults.append((kind, len(out), self.prims[pname]["width"], pname, z))
        out += self.enc_prim(pname, z)

    def arm_keys(self, uname):
        d = self.types[uname]
        return [(a["key"]["z"], a) for a in d["arms"] if a["key"]["k"] == "val"], [a for a in d["arms"] if a["key"]["k"] == "fallback"]

    def gen_type(self, name, out, sel=None, depth=0, enc=False):
        d = self.types[name]
        self.stats["types"].add(name)
        k = d["k"]
        if k == "struct":
            fields = d["fields"]
            vals = {}
            last_nonlist = None
            i = 0
            use_enc = enc and d["params"] and fields and fields[0]["k"] == "plain" and "t" in fields[0]["t"] and self.types[fields[0]["t"]["t"]]["k"].startswith("tpm2b")
            for idx, f in enumerate(fields):
                if f["k"] == "plain":
                    if idx == 0 and use_enc:
                        n = self.buf_size()
                        self.leaf(out, "UINT16", n, "size")
                        out += bytes(self.rng.randrange(256) for _ in range(n))
                        vals[f["n"]] = None
                        last_nonlist = None
                        continue
                    if "p" in f["t"]:
                        # is this prim a count for a following list, or a selector of a later union?
                        z = None
                        nxt = fields[idx + 1] if idx + 1 < len(fields) else None
                        if nxt is not None and nxt["k"] == "list":
                            z = self.small_count()
                            if not self.is_valid(f["t"]["p"], z):
                                z = None
                        selfor = [g for g in fields if g["k"] == "union" and g["sel"] == f["n"]]
                        if selfor:
                            u = selfor[0]["u"]["t"]
                            keys, fb = self.arm_keys(u)
                            cands = [kz for kz, a in keys if self.is_valid(f["t"]["p"], kz)]
                            if fb:
                                cands += [v for v in self.valid_values(f["t"]["p"]) if v not in [kz for kz, _ in keys]][:3]
                            if cands:
                                z = self.rng.choice(cands)
                        if z is None:
                            z = self.pick_valid(f["t"]["p"])
                        self.leaf(out, f["t"]["p"], z, "count" if (nxt is not None and nxt["k"] == "list") else "leaf")
                        vals[f["n"]] = z
                        last_nonlist = z
                    else:
                        self.gen_type(f["t"]["t"], out, depth=depth + 1)
                        vals[f["n"]] = None
                        last_nonlist = None
                elif f["k"] == "list":
                    cnt = last_nonlist if isinstance(last_nonlist, int) else 0
                    for _ in range(cnt):
                        self.gen_ref(f["elem"], out, depth=depth + 1)
                else:
                    self.gen_type(f["u"]["t"], out, sel=vals.get(f["sel"]), depth=depth + 1)
                    last_nonlist = None
            return None
        if k == "tpm2b_list":
            n = self.buf_size()
            ew = self.prims[d["elem"]["p"]]["width"] if "p" in d["elem"] else 1
            self.leaf(out, d["szp"], n, "size")
            for _ in range(n):
                if "p" in d["elem"] and d["elem"]["p"] in ("BYTE", "UINT8"):
                    out.append(self.rng.randrange(256))
                else:
                    self.gen_ref(d["elem"], out, depth=depth + 1)
            return None
        if k == "tpm2b_struct":
            if self.rng.random() < 0.12:
                self.leaf(out, d["szp"], 0, "size")
                return None
            inner = bytearray()
            saved = self.faults
            self.faults = []
            self.gen_ref(d["inner"], inner, depth=depth + 1)
            inner_f = self.faults
            self.faults = saved
            self.leaf(out, d["szp"], len(inner), "size")
            base = len(out)
            for (kd, off, w, pn, z) in inner_f:
                self.faults.append((kd, base + off, w, pn, z))
            out += inner
            return None
        if k == "union":
            keys, fb = self.arm_keys(name)
            arm = None
            for kz, a in keys:
                if kz == sel:
                    arm = a
            if arm is None and fb:
                arm = fb[0]
            if arm is None:
                return None
            self.stats["arms"].add((name, arm["n"]))
            p = arm["p"]
            if p["k"] == "ty":
                self.gen_ref(p["t"], out, depth=depth + 1)
            elif p["k"] == "list":
                for _ in range(p["n"] or 0):
                    self.gen_ref(p["elem"], out, depth=depth + 1)
            return None
        raise ValueError(k)

    def structure(self, name):
        """well-formed encoding of structure type [name] (a key of tables['types'] or a primitive)"""
        out = bytearray()
        self.faults = []
        if name in self.prims and name not in self.types:
            self.leaf(out, name, self.pick_valid(name))
        else:
            self.gen_type(name, out)
        return bytes(out), list(self.faults)

    # ---- messages
    def session(self, out, response, attrs, handle=None):
        if not response:
            self.leaf(out, "TPMI_SH_AUTH_SESSION", handle if handle is not None else self.pick_valid("TPMI_SH_AUTH_SESSION"))
        n = self.rng.choice([0, 0, 16, 20, 32])
        self.leaf(out, "UINT16", n, "size")
        out += bytes(self.rng.randrange(256) for _ in range(n))
        self.leaf(out, "TPMA_SESSION", attrs)
        n = self.rng.choice([0, 0, 20, 32])
        self.leaf(out, "UINT16", n, "size")
        out += bytes(self.rng.randrange(256) for _ in range(n))

    def command(self, cc=None, nsessions=None, decrypt=None, encrypt=None, empty_area=None, sess=None):
        """returns (bytes, info) ; info: cc, rsp_enc (a session asks for response encryption);
        empty_area: tag TPM_ST_SESSIONS with an authorization area of size 0 (present but empty)"""
        rng = self.rng
        cc = cc if cc is not None else rng.choice(self.ccs)
        if nsessions is None:
            nsessions = rng.choice([0, 0, 1, 1, 2, 3])
        if empty_area is None:
            empty_area = nsessions == 0 and rng.random() < 0.08
        empty_area = bool(empty_area) and nsessions == 0
        self.faults = []
        body = bytearray()
        base = 10
        self.gen_type(self.cmd_h[cc], body)
        attrs = []
        handles = []
        if sess is not None:
            # explicit sessions: [(handle or None, attributes)]
            nsessions = len(sess)
            handles = [h_ for h_, _ in sess]
            attrs = [a_ for _, a_ in sess]
        else:
            for i in range(nsessions):
                a = rng.choice([0, 1, 0x01, 0x81])
                if (decrypt if decrypt is not None else rng.random() < 0.25):
                    a |= 0x20
                if (encrypt if encrypt is not None else rng.random() < 0.25):
                    a |= 0x40
                attrs.append(a)
            handles = [None] * nsessions
        if nsessions or empty_area:
            area = bytearray()
            saved = self.faults
            self.faults = []
            for h_, a in zip(handles, attrs):
                self.session(area, False, a, handle=h_)
            af = self.faults
            self.faults = saved
            self.faults.append(("size", len(body), 4, "UINT32", len(area)))
            body += len(area).to_bytes(4, "big")
            b0 = len(body)
            self.faults += [(k, b0 + o, w, p, z) for (k, o, w, p, z) in af]
            body += area
        dec = any(a & 0x20 for a in attrs)
        params = bytearray()
        saved = self.faults
        self.faults = []
        self.gen_type(self.cmd_p[cc], params, enc=dec)
        pf = self.faults
        self.faults = saved
        b0 = len(body)
        self.faults += [(k, b0 + o, w, p, z) for (k, o, w, p, z) in pf]
        body += params
        tag = 0x8002 if (nsessions or empty_area) else 0x8001
        total = 10 + len(body)
        msg = tag.to_bytes(2, "big") + total.to_bytes(4, "big") + cc.to_bytes(4, "big") + bytes(body)
        faults = [("leaf", 0, 2, "TPMI_ST_COMMAND_TAG", tag), ("size", 2, 4, "UINT32", total), ("leaf", 6, 4, "TPM_CC", cc)]
        faults += [(k, 10 + o, w, p, z) for (k, o, w, p, z) in self.faults]
        return msg, {"cc": cc, "rsp_enc": any(a & 0x40 for a in attrs), "nsessions": nsessions, "empty_area": empty_area, "faults": faults}

    def response(self, cc, enc=False, nsessions=None, rc=None, empty_area=None, tag=None, sess_attrs=None):
        rng = self.rng
        if rc is None:
            rc = 0 if rng.random() < 0.85 else rng.choice([0x101, 0x1C4, 0x9A2, 0x922, 0x084, 0x902,
                                                            # reserved / software-layer bits above bit 11
                                                            0x000C0902, 0x80000101, 0x00070922, 0x0001001E])
        if sess_attrs is not None:
            nsessions = len(sess_attrs)
        if nsessions is None:
            nsessions = rng.choice([0, 0, 1, 2]) if not enc else rng.choice([1, 2])
        if empty_area is None:
            empty_area = nsessions == 0 and not enc and rng.random() < 0.08
        empty_area = bool(empty_area) and nsessions == 0 and not enc and rc == 0
        self.faults = []
        body = bytearray()
        tag_arg = tag
        tag = 0x8002 if ((nsessions or empty_area) and rc == 0) else 0x8001
        if tag_arg is not None and rc != 0:
            tag = tag_arg
        elif rc != 0 and rng.random() < 0.35:
            # a failed response is header-only whatever its tag says: TPM_ST_SESSIONS, the TPM 1.2 style tag 0x00C4 of
            # the TPM_RC_BAD_TAG reply (first byte 0x00), any other structure tag
            tag = rng.choice([0x8002] * 12 + [0x00C4] * 12 + [v for v in self.valid_values("TPM_ST") if 0 <= v < 65536])
            if tag == 0x00C4 and rng.random() < 0.7:
                rc = 0x1E
        if rc == 0:
            self.gen_type(self.rsp_h[cc], body)
            params = bytearray()
            saved = self.faults
            self.faults = []
            self.gen_type(self.rsp_p[cc], params, enc=enc)
            pf = self.faults
            self.faults = saved
            if tag == 0x8002:
                self.faults.append(("size", len(body), 4, "UINT32", len(params)))
                body += len(params).to_bytes(4, "big")
            b0 = len(body)
            self.faults += [(k, b0 + o, w, p, z) for (k, o, w, p, z) in pf]
            body += params
            if tag == 0x8002:
                for i in range(nsessions):
                    a = rng.choice([0, 1])
                    if enc and (i == 0 or rng.random() < 0.3):
                        a |= 0x40
                    if sess_attrs is not None:
                        a = sess_attrs[i]
                    area = bytearray()
                    saved = self.faults
                    self.faults = []
                    self.session(area, True, a)
                    af = self.faults
                    self.faults = saved
                    b0 = len(body)
                    self.faults += [(k, b0 + o, w, p, z) for (k, o, w, p, z) in af]
                    body += area
        total = 10 + len(body)
        msg = tag.to_bytes(2, "big") + total.to_bytes(4, "big") + rc.to_bytes(4, "big") + bytes(body)
        faults = [("leaf", 0, 2, "TPM_ST", tag), ("size", 2, 4, "UINT32", total), ("leaf", 6, 4, "TPM_RC", rc)]
        faults += [(k, 10 + o, w, p, z) for (k, o, w, p, z) in self.faults]
        return msg, {"cc": cc, "enc": enc, "rc": rc, "empty_area": empty_area, "faults": faults}

    def pair(self, cc=None):
        c, ci = self.command(cc)
        # response encryption is only meaningful when the first response parameter is a TPM2B; otherwise the
        # flag is ignored by the decoder; the response's own sessions must agree with the flag
        enc = ci["rsp_enc"]
        r, ri = self.response(ci["cc"], enc=enc, nsessions=(None if not enc else None))
        if enc and ri["rc"] != 0:
            pass
        return c, ci, r, ri


def set_field(msg, off, width, value):
    b = bytearray(msg)
    b[off:off + width] = (value % (1 << (8 * width))).to_bytes(width, "big")
    return bytes(b)
