"""The bundled pcap corpus as (command, response) byte pairs; committed snapshot harness/corpus.json
(built once from /repo/src/tpmstream/data/*.pcap with dpkt; inputs only - never expected results)."""
import json
import os

HERE = os.path.dirname(os.path.abspath(__file__))


def build(repo="/repo"):
    import glob

    import dpkt

    pairs = []
    for path in sorted(glob.glob(os.path.join(repo, "src/tpmstream/data/*.pcap"))):
        blobs = []
        with open(path, "rb") as f:
            for ts, buf in dpkt.pcapng.Reader(f):
                blobs.append(dpkt.ip.IP(buf).data.data)
        for i in range(0, len(blobs) - 1, 2):
            pairs.append([os.path.basename(path), bytes(blobs[i]).hex(), bytes(blobs[i + 1]).hex()])
    return pairs


def load():
    with open(os.path.join(HERE, "corpus.json")) as f:
        return json.load(f)


if __name__ == "__main__":
    pairs = build()
    # dedupe identical pairs, keep order
    seen = set()
    out = []
    for p in pairs:
        k = (p[1], p[2])
        if k in seen:
            continue
        seen.add(k)
        out.append(p)
    with open(os.path.join(HERE, "corpus.json"), "w") as f:
        json.dump(out, f)
    print(len(pairs), len(out))
